"""C14 Adaptive fees follow the volatility schedule and stay within the hard limit.

Decided: the total and adaptive rates are clamped to FEE_RATE_HARD_LIMIT (100_000) on every
non-constant return, the total is static + adaptive on unsigned types with a static rate that
cannot exceed the limit by itself, and the swap loop prices each step with the manager's total
rate; the stored volatility accumulator is always min(.., max_volatility_accumulator);
adaptive-fee constants are stored only behind validate_constants (C19.R3 instances) and keep
their names on the way from tier to oracle and through the field-wise merge of
set_adaptive_fee_constants; the reference update follows the documented time classes
(timestamp regression fails, > 1 h resets, < filter keeps, < decay decays by
reduction/10_000, else resets) and happens once when the manager is created; trading is
refused before the trade-enable time in all four swap handlers; a zero control factor or a
static manager leaves the price target unbounded; the major-swap timestamp is stored only
when is_major_swap; the stored variables come from the manager of the same pool.
Also decided: intermediate products are wide enough for every validated constant set; changing the constants
always resets the variables; the skip range is sized from the updated reference object;
Also decided: the reset clears all seven variables, timestamps included; the skip advance receives the next tick's own price.
Not decided: per-step rates along a swap, the skip optimisation's equivalence, decay numerics."""
from analysis import poly as P, cfg, atoms as A, preach, writes
from analysis.ir import callee_path, AnchorMissing
from analysis.prov import prov_of, prov_assuming, strip, leaves, subterms, show
from analysis.match import is_param, is_field, is_call, const_val, sh, mentions, fail_conditions
from rules.common import calls_to, ends, arg_name, acc, acc_chain, argname_mismatches, ctx_fail_conditions, as_min
from rules import swaploop as SL
from rules import C19

FRM = "manager::fee_rate_manager::FeeRateManager::"
AFV = "state::oracle::AdaptiveFeeVariables::"
LIMIT = 100000


def _returns(fn, pv=None):
    pv = pv or prov_of(fn)
    out = []
    for bi, bb in enumerate(fn.blocks):
        if bb["t"]["k"] == "ret" and (pv.flow is None or pv.flow.state_in[bi] is not None):
            out.extend(leaves(pv.local(0, bi, len(bb["s"]))))
    return out


def R1_clamps(run):
    run.title("R1", "get_total_fee_rate and compute_adaptive_fee_rate return either FEE_RATE_HARD_LIMIT or a value proven <= it by the guarding comparison; total = static(u16) + "
                    "adaptive(u32); the swap loop's step rate is get_total_fee_rate(); stored volatility accumulator = min(reference + delta*10_000, max_volatility_accumulator)")
    facts = run.facts
    run.check("R1", "limit-constant", facts.const_value("manager::fee_rate_manager::FEE_RATE_HARD_LIMIT") == LIMIT, "FEE_RATE_HARD_LIMIT is %s, the property states 10%% = 100_000" % facts.const_value("manager::fee_rate_manager::FEE_RATE_HARD_LIMIT"),
              detail="100_000")
    for name in ("get_total_fee_rate", "compute_adaptive_fee_rate"):
        fn = facts.need_fn(FRM + name)
        run.touch(fn)
        rets = _returns(fn)
        # every return leaf is: the limit constant, the static rate (u16 cast), or a value v with an atom `v > LIMIT` whose false edge leads to it
        guard = None
        for at in A.atoms(fn):
            c = at.cond()
            if c:
                for (o, x, y) in ((c[0], c[1], c[2]), (A.SWAP[c[0]], c[2], c[1])):
                    if o == "Gt" and const_val(y) == LIMIT:
                        guard = (at, x)
        kinds = []
        totals = []
        ok = guard is not None
        for r in rets:
            s = strip(r)
            m = as_min(s)
            if const_val(s) == LIMIT:
                kinds.append("limit")
            elif m and any(const_val(x) == LIMIT for x in m):
                # `value.min(FEE_RATE_HARD_LIMIT)`: limit and guarded value in one
                kinds += ["limit", "guarded"]
                ok = True if guard is None and all(k in ("limit", "guarded", "static") for k in kinds) else ok
                totals.append([x for x in m if const_val(x) != LIMIT][0])
            elif name == "get_total_fee_rate" and arg_name(s) == "static_fee_rate" and not mentions(s, lambda t: t[0] == "bin"):
                kinds.append("static")
            elif guard is not None and strip(guard[1]) == s:
                # the unclamped value is returned only on the guard's false side
                at = guard[0]
                pvf = prov_assuming(fn, [(at, True)])
                leaked = [x for x in _returns(fn, pvf) if strip(x) == s]
                kinds.append("guarded" if not leaked else "LEAK")
                ok = ok and not leaked
            else:
                kinds.append("?" + sh(s, 60))
                ok = False
        run.check("R1", "clamp@" + name, ok and "limit" in kinds and "guarded" in kinds, "%s returns %s; every non-constant return must be the value tested by `value > FEE_RATE_HARD_LIMIT` on its false side" % (name, kinds),
                  loc=fn.loc(), detail="returns: " + ", ".join(kinds))
    fn = facts.need_fn(FRM + "get_total_fee_rate")
    total = None
    for at in A.atoms(fn):
        c = at.cond()
        if c and const_val(c[2]) == LIMIT:
            total = strip(c[1])
    for r in _returns(fn):
        m = as_min(r)
        if m and any(const_val(x) == LIMIT for x in m):
            total = strip([x for x in m if const_val(x) != LIMIT][0])
    ok = total is not None and total[0] == "bin" and total[1] in ("Add", "AddWithOverflow")
    if ok:
        a, b = strip(total[2]), strip(total[3])
        parts = {arg_name(a) or ("call" if a[0] == "call" else "?"), arg_name(b) or ("call" if b[0] == "call" else "?")}
        ok = "static_fee_rate" in parts and any(is_call(x, "compute_adaptive_fee_rate") for x in (a, b))
    run.check("R1", "total-is-static-plus-adaptive", ok, "total fee rate is %s, expected static_fee_rate + compute_adaptive_fee_rate(constants, variables)" % (sh(total, 100) if total else None), loc=fn.loc(),
              detail="static + adaptive")
    fr = facts.need_adt("manager::fee_rate_manager::FeeRateManager")
    tys = {f["name"]: f["ty"] for v in fr["variants"] for f in v["fields"] if f["name"] == "static_fee_rate"}
    run.check("R1", "static-rate-type", set(tys.values()) == {"u16"} and 65535 < LIMIT, "static_fee_rate is %s; it must be unable to exceed the hard limit on its own" % tys, detail="u16 (max 65_535 < 100_000): the clamp never cuts below the static rate")
    run.check("R1", "returns-unsigned", facts.need_fn(FRM + "get_total_fee_rate").sig["out"] == "u32" and facts.need_fn(FRM + "compute_adaptive_fee_rate").sig["out"] == "u32", "fee rates are not u32", detail="u32")
    sw = facts.need_fn(SL.SWAP)
    cs = calls_to(sw, ends("compute_swap"), ctx={}, cut=False)
    ok = len(cs) == 1 and is_call(cs[0][2][1], "get_total_fee_rate")
    run.check("R1", "step-rate", ok, "compute_swap's fee rate is %s, expected fee_rate_manager.get_total_fee_rate()" % (sh(cs[0][2][1], 60) if cs else None), loc=sw.loc(), detail="rate := get_total_fee_rate()")
    nw = calls_to(sw, ends("FeeRateManager::new"), ctx={}, cut=False)
    ok = len(nw) == 1 and is_param(nw[0][2][0], "a_to_b") and arg_name(nw[0][2][1]) == "tick_current_index" and is_param(nw[0][2][2], "timestamp") and arg_name(nw[0][2][3]) == "fee_rate" and is_param(nw[0][2][4], "adaptive_fee_info")
    run.check("R1", "manager-inputs", ok, "FeeRateManager::new is not given (a_to_b, pool tick, timestamp, pool fee_rate, adaptive_fee_info)", loc=sw.loc(), detail="new(a_to_b, tick, now, pool.fee_rate, info)")
    fn = facts.need_fn(AFV + "update_volatility_accumulator")
    run.touch(fn)
    pv = prov_of(fn)
    ws = [w for w in writes.writers_of(facts, "state::oracle::AdaptiveFeeVariables", "volatility_accumulator")]
    ok = len(ws) == 1 and ws[0]["fn"] is fn
    if ok:
        v = strip(pv._rvalue(ws[0]["rv"], ws[0]["block"], ws[0]["stmt"], 0))
        ok = v[0] == "call" and v[1].endswith("::min") and any(arg_name(x) == "max_volatility_accumulator" for x in v[2])
        if ok:
            other = [strip(x) for x in v[2] if arg_name(x) != "max_volatility_accumulator"][0]
            ok = other[0] == "bin" and other[1] in ("Add", "AddWithOverflow") and any(arg_name(x) == "volatility_reference" for x in (other[2], other[3])) and \
                mentions(other, lambda s: s[0] == "const" and s[1] == 10000)
    run.check("R1", "accumulator-capped", ok, "volatility_accumulator is not stored as min(reference + |group delta| * 10_000, max_volatility_accumulator) by its single writer", loc=fn.loc(),
              detail="acc := min(ref + delta * 10_000, max)")


def R2_constants_validated(run):
    run.title("R2", "adaptive-fee constants are stored only behind validate_constants on the stored values (C19.R3 instances) and keep their names from tier -> "
                    "Oracle::initialize -> AdaptiveFeeConstants -> validate_constants, and through set_adaptive_fee_constants' field-wise merge")

    class Proxy:
        def __init__(self, run):
            self._r = run

        def __getattr__(self, k):
            return getattr(self._r, k)

        def check(self, rule, *a, **kw):
            return self._r.check("R2", *a, **kw)

        def ok(self, rule, *a, **kw):
            return self._r.ok("R2", *a, **kw)

        def bad(self, rule, *a, **kw):
            return self._r.bad("R2", *a, **kw)

        def missing(self, rule, *a, **kw):
            return self._r.missing("R2", *a, **kw)

        def title(self, rule, text):
            pass

        def floor(self, rule, *a, **kw):
            return self._r.floor("R2", *a, **kw)
    C19.R3_validate_constants(Proxy(run))
    facts = run.facts
    names = ["filter_period", "decay_period", "reduction_factor", "adaptive_fee_control_factor", "max_volatility_accumulator", "tick_group_size", "major_swap_threshold_ticks"]
    h = facts.need_fn("instructions::adaptive_fee::initialize_pool_with_adaptive_fee::handler")
    run.touch(h)
    cs = calls_to(h, ends("Oracle::initialize"))
    ok = len(cs) == 1
    if ok:
        a = cs[0][2]
        mm = argname_mismatches(facts, h, cs[0][0], cs[0][1], a)
        got = [arg_name(x) for x in a[4:11]]
        ok = not mm and got == names and all(acc(x) == "adaptive_fee_tier" for x in a[4:11]) and acc_chain(a[3]) == "adaptive_fee_tier.tick_spacing" and is_call(a[1], "key") and acc(a[1]) == "whirlpool"
        run.check("R2", "tier-to-oracle", ok, "initialize_pool_with_adaptive_fee passes %s (%s) to Oracle::initialize, expected the tier's same-named constants and tick spacing" % (got, "; ".join(mm)), loc=h.loc(cs[0][1]["l"]),
                  detail="oracle.initialize(pool key, enable ts, tier.tick_spacing, tier.<7 constants by name>)")
    fn = facts.need_fn("state::oracle::Oracle::initialize")
    run.touch(fn)
    cons = [c for c in writes.constructions(facts, "state::oracle::AdaptiveFeeConstants") if c["fn"] is fn]
    ok = len(cons) == 1
    if ok:
        pv = prov_of(fn)
        c = cons[0]
        ok = all(is_param(pv.operand(c["fields"][n], c["block"], c["stmt"]), n) for n in names)
    run.check("R2", "oracle-struct-by-name", ok, "Oracle::initialize does not build AdaptiveFeeConstants field f from parameter f", loc=fn.loc(), detail="AdaptiveFeeConstants{f: f, ..}")
    cs = calls_to(fn, ends("Oracle::initialize_adaptive_fee_constants"))
    ok = len(cs) == 1 and is_param(cs[0][2][2], "tick_spacing") and cfg.must_pass_call(fn, cs[0][0])[0]
    if not cs:
        # validation and store written in place: the store itself is a validated-store instance above (validate_constants on the
        # stored values with the tick_spacing parameter); here: it happens on every successful path
        ws = [w for w in writes.writers_of(facts, "state::oracle::Oracle", "adaptive_fee_constants") if w["fn"] is fn and w["kind"] == "assign"]
        ok = len(ws) == 1 and not cfg.success_reach(fn, 0, cut_blocks=[ws[0]["block"]])
    run.check("R2", "oracle-validates", ok, "Oracle::initialize does not must-pass initialize_adaptive_fee_constants(constants, tick_spacing)", loc=fn.loc(), detail="initialize_adaptive_fee_constants(constants, tick_spacing)?")
    h = facts.need_fn("instructions::adaptive_fee::set_adaptive_fee_constants::handler")
    run.touch(h)
    cons = [c for c in writes.constructions(facts, "state::oracle::AdaptiveFeeConstants") if c["fn"] is h]
    ok = len(cons) == 1
    if ok:
        pv = prov_of(h)
        c = cons[0]
        for n in names:
            t = strip(pv.operand(c["fields"][n], c["block"], c["stmt"]))
            good = t[0] == "call" and t[1].endswith("unwrap_or") and is_param(t[2][0], n) and arg_name(t[2][1]) == n and mentions(t[2][1], lambda s: s[0] == "field" and s[2] == "adaptive_fee_constants")
            ok = ok and good
    if not cons:
        # the merge written as overrides: a local copy of the existing constants, and for each name one store `copy.f = v` of the
        # payload of the same-named Option parameter
        pv = prov_of(h)
        loc_stores = [w for w in writes.field_stores(facts) if w["fn"] is h and w["adt"] == "state::oracle::AdaptiveFeeConstants" and w.get("root") == "local" and w["last"] and w["kind"] == "assign"]
        locs = {h.blocks[w["block"]]["s"][w["stmt"]]["p"]["l"] for w in loc_stores}
        ok = len(locs) == 1
        if ok:
            L = locs.pop()
            inits = [d for d in pv.defs.get(L, []) if d[2] is None]
            ok = len(inits) == 1 and mentions(pv._site(inits[0], 0), lambda s: s[0] == "field" and s[2] == "adaptive_fee_constants")
            for n in names:
                mine = [w for w in loc_stores if w["field"] == n]
                good = len(mine) == 1
                if good:
                    v = strip(pv._rvalue(mine[0]["rv"], mine[0]["block"], mine[0]["stmt"], 0))
                    while v[0] in ("payload", "q", "cast", "variant") or (v[0] == "field" and v[2] == "0"):
                        v = strip(v[1])
                    good = is_param(v, n)
                ok = ok and good
    run.check("R2", "merge-by-name", ok, "set_adaptive_fee_constants does not merge each constant as f.unwrap_or(existing.f)", loc=h.loc(), detail="f: f.unwrap_or(existing.f) for all 7")
    cs = calls_to(h, ends("Oracle::initialize_adaptive_fee_constants"))
    ok = len(cs) == 1 and acc_chain(cs[0][2][2]) == "whirlpool.tick_spacing" and cfg.must_pass_call(h, cs[0][0])[0]
    run.check("R2", "merge-validated", ok, "set_adaptive_fee_constants does not validate the merged constants against the pool's tick spacing", loc=h.loc(), detail="initialize_adaptive_fee_constants(merged, whirlpool.tick_spacing)?")
    rs = calls_to(h, ends("Oracle::reset_adaptive_fee_variables"))
    # ... and the reset clears everything, the two timestamps included (a kept last-update time makes the first swap after a change
    # of constants a high-frequency one, which does not re-anchor the cleared reference)
    rf = facts.need_fn("state::oracle::Oracle::reset_adaptive_fee_variables")
    run.touch(rf)
    pvr = prov_of(rf)
    wsr = [w for w in writes.writers_of(facts, "state::oracle::Oracle", "adaptive_fee_variables") if w["fn"] is rf and w["kind"] == "assign"]

    def all_default(v):
        v = strip(v)
        if v[0] == "call" and v[1].endswith("::default") and not v[2]:
            return True
        if v[0] == "const":
            return v[1] in (0, False)
        if v[0] == "field":
            return all_default(v[1])
        if v[0] == "agg":
            return all(all_default(x) for _, x in v[3])
        if v[0] in ("array",):
            return all(all_default(x) for x in v[1])
        if v[0] == "repeat":
            return all_default(v[1])
        return False
    okr = len(wsr) >= 1 and all(w["last"] for w in wsr) and not cfg.success_reach(rf, 0, cut_blocks=[w["block"] for w in wsr])
    for w in wsr:
        v = pvr._rvalue(w["rv"], w["block"], w["stmt"], 0) if "callres" not in w["rv"] else pvr.local(w["rv"]["callres"]["d"]["l"], w["block"], w["stmt"] + 1)
        okr = okr and all(all_default(x) for x in leaves(v))
    run.check("R2", "reset-clears-all", okr, "reset_adaptive_fee_variables does not store AdaptiveFeeVariables::default() as a whole", loc=rf.loc(), detail="adaptive_fee_variables := default (all seven fields)")
    run.check("R2", "variables-reset-on-change", len(rs) == 1 and bool(cs) and cfg.dominates(h, cs[0][0], rs[0][0]) and not cfg.success_reach(h, 0, cut_blocks=[rs[0][0]]),
              "changing the constants does not unconditionally reset the adaptive-fee variables (stale variables can exceed the new maximum)", loc=h.loc(), detail="reset on every success path, after validation")


def _root_local(fn, l):
    """The local a reference / copy chain of single-assignment temporaries starts from (`_a = &_b; _c = copy _a` -> _b): a read
    through a reference handed to a spliced-in helper is a read of the referenced object."""
    for _ in range(8):
        defs = [st for bb in fn.blocks for st in bb["s"] if st["k"] == "=" and st["p"].get("l") == l and "p" not in st["p"]]
        defs += [bb["t"] for bb in fn.blocks if bb["t"]["k"] == "call" and bb["t"]["d"].get("l") == l and "p" not in bb["t"]["d"]]
        if len(defs) != 1 or "rv" not in defs[0]:
            return l
        rv = defs[0]["rv"]
        if "ref" in rv and ("p" not in rv["ref"] or rv["ref"]["p"] == ["*"]):
            l = rv["ref"]["l"]      # &x, or the re-borrow &*r of a reference r
        elif "use" in rv and isinstance(rv["use"], dict) and (rv["use"].get("cp") or rv["use"].get("mv")) and "p" not in (rv["use"].get("cp") or rv["use"].get("mv")):
            l = (rv["use"].get("cp") or rv["use"].get("mv"))["l"]
        else:
            return l
    return l


def R3_reference_update(run):
    run.title("R3", "update_reference: now < max(last_reference_update, last_major_swap) => InvalidTimestamp; age > 3600 => reset; elapsed < filter => unchanged; elapsed < decay "
                    "=> reference := accumulator * reduction / 10_000; else reset; called exactly once, in FeeRateManager::new, with the start tick group")
    facts = run.facts
    fn = facts.need_fn(AFV + "update_reference")
    run.touch(fn)
    ats = A.atoms(fn)
    ts = age = filt = dec = None
    for at in ats:
        c = at.cond()
        if not c:
            continue
        for (o, x, y) in ((c[0], c[1], c[2]), (A.SWAP[c[0]], c[2], c[1])):
            if o == "Lt" and is_param(x, "current_timestamp") and is_call(y, "max") and "InvalidTimestamp" in (at.true_codes | at.false_codes):
                mx = {arg_name(z) for z in strip(y)[2]}
                if mx == {"last_reference_update_timestamp", "last_major_swap_timestamp"}:
                    ts = at
            if o == "Gt" and const_val(y) == 3600 and strip(x)[0] == "bin" and arg_name(strip(x)[3]) == "last_reference_update_timestamp":
                age = (at, o)
            if o == "Lt" and arg_name(y) == "filter_period":
                filt = (at, x)
            if o == "Lt" and arg_name(y) == "decay_period":
                dec = (at, x)
    run.check("R3", "timestamp-regression", ts is not None, "update_reference does not fail when now < max(last reference update, last major swap)", loc=fn.loc(), detail="now < max(ts) => InvalidTimestamp")
    run.check("R3", "atoms", age is not None and filt is not None and dec is not None, "update_reference lost one of: age > MAX_REFERENCE_AGE(3600), elapsed < filter_period, elapsed < decay_period", loc=fn.loc(),
              detail="age > 3600; elapsed < filter; elapsed < decay")
    if not (ts and age and filt and dec):
        return

    def is_elapsed_def(x):
        x = strip(x)
        return x[0] == "bin" and x[1].startswith("Sub") and is_param(x[2], "current_timestamp") and is_call(x[3], "max") and \
            {arg_name(z) for z in strip(x[3])[2]} == {"last_reference_update_timestamp", "last_major_swap_timestamp"}
    a = strip(age[0].cond()[1] if strip(age[0].cond()[1])[0] == "bin" else age[0].cond()[2])
    run.check("R3", "time-bases", is_elapsed_def(filt[1]) and is_elapsed_def(dec[1]) and is_param(a[2], "current_timestamp") and a[1].startswith("Sub"),
              "elapsed must be now - max(last reference update, last major swap) in both period comparisons and age must be now - last reference update", loc=fn.loc(),
              detail="elapsed := now - max(ref ts, major ts); age := now - ref ts")
    stores = [w for w in writes.field_stores(facts) if w["fn"] is fn and w["last"]]

    def stored_under(assumptions):
        pv = prov_assuming(fn, assumptions)
        out = {}
        for w in stores:
            if pv.flow.state_in[w["block"]] is not None:
                out[w["field"]] = strip(pv._rvalue(w["rv"], w["block"], w["stmt"], 0))
        return out

    age_at, filt_at, dec_at = age[0], filt[0], dec[0]

    def oriented_truth(at, op_wanted, lhs_pred):
        c = at.cond()
        if lhs_pred(c[1]):
            return c[0] == op_wanted
        return A.SWAP[c[0]] == op_wanted

    def assume(at, op_wanted, lhs_pred, want):
        same = oriented_truth(at, op_wanted, lhs_pred)
        return (at, want if same else (not want))
    is_age = lambda t: strip(t)[0] == "bin"
    is_elapsed = lambda t: strip(t)[0] == "bin"
    old = stored_under([assume(age_at, "Gt", is_age, True)])
    ok = const_val(old.get("volatility_reference", ("x",))) == 0 and is_param(old.get("tick_group_index_reference", ("x",)), "tick_group_index") and is_param(old.get("last_reference_update_timestamp", ("x",)), "current_timestamp")
    run.check("R3", "too-old-resets", ok, "references older than one hour are not reset to (group, 0, now): %s" % {k: sh(v, 40) for k, v in old.items()}, loc=fn.loc(), detail="age > 3600 => (group, 0, now)")
    # ... whatever the elapsed time since the last update or major swap says: the age test comes first, and an old reference met in
    # the decay window is reset, not decayed
    old2 = stored_under([assume(age_at, "Gt", is_age, True), assume(filt_at, "Lt", is_elapsed, False), assume(dec_at, "Lt", is_elapsed, True)])
    ok = cfg.dominates(fn, age_at.block, filt_at.block) and cfg.dominates(fn, age_at.block, dec_at.block) and const_val(old2.get("volatility_reference", ("x",))) == 0
    run.check("R3", "too-old-first", ok, "the one-hour age test of update_reference does not come before the filter / decay window tests (an old reference inside the decay window is %s)" %
              {k: sh(v, 40) for k, v in old2.items()}, loc=fn.loc(), detail="age > 3600 is tested first")
    hf = stored_under([assume(age_at, "Gt", is_age, False), assume(filt_at, "Lt", is_elapsed, True)])
    run.check("R3", "high-frequency-unchanged", hf == {}, "within the filter period the references are modified: %s" % sorted(hf), loc=fn.loc(), detail="elapsed < filter => no store")
    dc = stored_under([assume(age_at, "Gt", is_age, False), assume(filt_at, "Lt", is_elapsed, False), assume(dec_at, "Lt", is_elapsed, True)])
    vr = dc.get("volatility_reference")
    ok = vr is not None and is_param(dc.get("tick_group_index_reference", ("x",)), "tick_group_index") and is_param(dc.get("last_reference_update_timestamp", ("x",)), "current_timestamp")
    if ok:
        d = [s for s in subterms(vr) if s[0] == "bin" and s[1] == "Div"]
        ok = len(d) == 1 and const_val(d[0][3]) == 10000 and mentions(d[0][2], lambda s: s[0] == "field" and s[2] == "volatility_accumulator") and mentions(d[0][2], lambda s: s[0] == "field" and s[2] == "reduction_factor")
    run.check("R3", "decay", ok, "within the decay period the reference is not accumulator * reduction_factor / 10_000 with (group, now) updated: %s" % {k: sh(v, 60) for k, v in dc.items()}, loc=fn.loc(),
              detail="filter <= elapsed < decay => ref := acc * reduction / 10_000")
    rs = stored_under([assume(age_at, "Gt", is_age, False), assume(filt_at, "Lt", is_elapsed, False), assume(dec_at, "Lt", is_elapsed, False)])
    ok = const_val(rs.get("volatility_reference", ("x",))) == 0 and is_param(rs.get("tick_group_index_reference", ("x",)), "tick_group_index")
    run.check("R3", "after-decay-resets", ok, "after the decay period the reference is not reset to 0: %s" % {k: sh(v, 40) for k, v in rs.items()}, loc=fn.loc(), detail="elapsed >= decay => ref := 0")
    callers = facts.callers().get(AFV + "update_reference", [])
    ok = len(callers) == 1 and callers[0][0].path == FRM + "new"
    run.check("R3", "called-once", ok, "update_reference is called from %s, expected once from FeeRateManager::new" % [c[0].path for c in callers], detail="FeeRateManager::new only")
    nw = facts.need_fn(FRM + "new")
    cs = calls_to(nw, ends("AdaptiveFeeVariables::update_reference"))
    ok = len(cs) == 1 and is_call(cs[0][2][1], "floor_division") and is_param(cs[0][2][2], "timestamp") and cfg.must_pass_call(nw, cs[0][0])[0] is not None and cfg.result_checked(nw, cs[0][0])
    if ok:
        fd = strip(cs[0][2][1])[2]
        ok = is_param(fd[0], "current_tick_index") and arg_name(fd[1]) == "tick_group_size"
    # the skip range is sized from the *updated* reference: every read of the reference fields in `new` comes after update_reference
    if cs:
        ub = cs[0][0]
        late = []
        from rules.common import field_reads
        for fld in ("volatility_reference", "tick_group_index_reference"):
            for (bi_, si_) in field_reads(nw, fld):
                if not (cfg.dominates(nw, ub, bi_) and bi_ != ub):
                    late.append(fld)
        # ... and they read the very object update_reference() mutated, not the caller's stale copy
        self_op = cs[0][1]["a"][0]
        sl = (self_op.get("mv") or self_op.get("cp") or {}).get("l")
        obj = None
        for bb_ in nw.blocks:
            for st_ in bb_["s"]:
                if st_["k"] == "=" and st_["p"].get("l") == sl and "p" not in st_["p"] and "ref" in st_["rv"]:
                    obj = st_["rv"]["ref"]["l"] if "p" not in st_["rv"]["ref"] else None
        for fld in ("volatility_reference", "tick_group_index_reference"):
            for (bi_, si_) in field_reads(nw, fld):
                st_ = nw.blocks[bi_]["s"][si_] if si_ < len(nw.blocks[bi_]["s"]) else None
                places = []
                if st_ is not None:
                    for k_ in ("use", "a", "b"):
                        o_ = st_["rv"].get(k_)
                        if isinstance(o_, dict):
                            places.append(o_.get("cp") or o_.get("mv"))
                for pl_ in places:
                    if pl_ and "p" in pl_ and any(isinstance(e, dict) and e.get("f") == fld for e in pl_["p"]) and _root_local(nw, pl_["l"]) != obj:
                        late.append(fld + " (read from another copy than the updated one)")
        run.check("R3", "range-from-updated-reference", obj is not None and not late and bool(field_reads(nw, "volatility_reference")) and bool(field_reads(nw, "tick_group_index_reference")),
                  "FeeRateManager::new reads %s before update_reference(): the saturation (skip) range would be sized from the stale reference" % sorted(set(late)), loc=nw.loc(),
                  detail="volatility_reference / tick_group_index_reference are read only after update_reference()?")
    run.check("R3", "reference-inputs", ok, "FeeRateManager::new does not update the reference with (floor(current_tick / tick_group_size), timestamp, constants)?", loc=nw.loc(), detail="update_reference(floor(tick / group_size), now, constants)?")


def R4_gates(run):
    run.title("R4", "all four swap handlers fail with TradeIsNotEnabled when !is_trade_enabled(now) before swapping; is_trade_enabled is trade_enable_timestamp <= now; "
                    "static manager or control factor 0 => unbounded target; last_major_swap_timestamp stored only under is_major_swap")
    facts = run.facts
    for hp, engine in (("instructions::swap::handler", "swap_manager::swap"), ("instructions::v2::swap::handler", "swap_with_transfer_fee_extension"),
                       ("instructions::two_hop_swap::handler", "swap_manager::swap"), ("instructions::v2::two_hop_swap::handler", "swap_with_transfer_fee_extension")):
        h = facts.need_fn(hp)
        run.touch(h)
        swaps = [bi for bi, t in h.calls() if (callee_path(t) or "").endswith(engine)]
        gates = []
        for at in A.atoms(h):
            if at.false_fail and "TradeIsNotEnabled" in at.false_codes and mentions(at.term, lambda s: s[0] == "call" and s[1].endswith("is_trade_enabled")):
                c = [s for s in subterms(at.term) if s[0] == "call" and s[1].endswith("is_trade_enabled")][0]
                oa = [s for s in subterms(c[2][0]) if s[0] == "call" and s[1].endswith("OracleAccessor::<'info>::new")]
                pool = acc(oa[0][2][0]) if oa else None
                if swaps and all(A.guarded_by(h, at, b) for b in swaps):
                    gates.append(pool)
        want = {"whirlpool"} if "two_hop" not in hp else {"whirlpool_one", "whirlpool_two"}
        run.check("R4", "trade-enable-gate@" + hp, set(gates) == want, "%s gates trading on %s, expected a must-pass !is_trade_enabled => TradeIsNotEnabled for %s before any swap computation" % (hp, sorted(map(str, gates)), sorted(want)),
                  loc=h.loc(), detail="!is_trade_enabled(now)? => TradeIsNotEnabled for " + ", ".join(sorted(want)))
    fn = facts.need_fn("state::oracle::OracleAccessor::<'info>::is_trade_enabled")
    run.touch(fn)
    rets = [dict(l[3])["0"] for l in _returns(fn) if l[0] == "agg" and l[2] == "Ok"]
    cmpv = [strip(r) for r in rets if strip(r)[0] == "bin"]
    cmpv = [A.norm_cmp(c[1], c[2], c[3]) for c in cmpv]
    ok = len(cmpv) == 1 and cmpv[0][0] == "Le" and arg_name(cmpv[0][1]) == "trade_enable_timestamp" and is_param(cmpv[0][2], "current_timestamp") and any(const_val(r) == 1 for r in rets)
    run.check("R4", "is_trade_enabled", ok, "is_trade_enabled is not (trade_enable_timestamp <= now), true for pools without an oracle", loc=fn.loc(), detail="ts <= now; no oracle => true")
    ws = writes.writers_of(facts, "state::oracle::Oracle", "trade_enable_timestamp")
    oi = facts.need_fn("state::oracle::Oracle::initialize")
    ok = len(ws) == 1 and ws[0]["fn"] is oi
    if ok:
        v = strip(prov_of(oi)._rvalue(ws[0]["rv"], ws[0]["block"], ws[0]["stmt"], 0))
        ok = v[0] == "call" and v[1].endswith("unwrap_or") and is_param(v[2][0], "trade_enable_timestamp") and const_val(v[2][1]) == 0
    run.check("R4", "enable-time-single-writer", ok, "Oracle.trade_enable_timestamp is written by %s; expected only Oracle::initialize storing the requested time (or 0)" % sorted({w["fn"].path for w in ws}),
              loc=oi.loc(), detail="written once at pool creation: trade_enable_timestamp.unwrap_or(0)")
    ih = facts.need_fn("instructions::adaptive_fee::initialize_pool_with_adaptive_fee::handler")
    ic = calls_to(ih, ends("Oracle::initialize"))
    run.check("R4", "enable-time-from-creator", len(ic) == 1 and is_param(ic[0][2][2], "trade_enable_timestamp"), "the pool's trade-enable time is not the creation instruction's argument", loc=ih.loc(),
              detail="oracle.initialize(.., trade_enable_timestamp, ..)")
    fn = facts.need_fn(FRM + "get_bounded_sqrt_price_target")
    run.touch(fn)
    # static variant: (sqrt_price, false)
    zero = None
    for at in A.atoms(fn):
        c = at.cond()
        if c and c[0] in ("Eq", "Ne") and any(arg_name(x) == "adaptive_fee_control_factor" for x in c[1:]) and any(const_val(x) == 0 for x in c[1:]):
            zero = at
    ok = zero is not None
    if ok:
        c = zero.cond()
        pv = prov_assuming(fn, [(zero, c[0] == "Eq")])
        rets = [strip(r) for r in _returns(fn, pv)]
        adaptive = [r for r in rets if r[0] == "tuple" and const_val(r[1][1]) == 1]
        ok = bool(adaptive) and all(is_param(r[1][0], "sqrt_price") for r in adaptive)
    run.check("R4", "zero-control-factor-unbounded", ok, "with adaptive_fee_control_factor == 0 the price target is bounded / not skipped", loc=fn.loc(), detail="control factor 0 => (target, skip)")
    st = [strip(r) for r in _returns(fn) if strip(r)[0] == "tuple" and const_val(strip(r)[1][1]) == 0 and is_param(strip(r)[1][0], "sqrt_price")]
    run.check("R4", "static-unbounded", len(st) >= 1, "a static fee manager no longer returns the unmodified target", loc=fn.loc(), detail="Static => (target, false)")
    fn = facts.need_fn(AFV + "update_major_swap_timestamp")
    run.touch(fn)
    ws = [w for w in writes.writers_of(facts, "state::oracle::AdaptiveFeeVariables", "last_major_swap_timestamp")]
    ok = len(ws) == 1 and ws[0]["fn"] is fn
    if ok:
        g = False
        for at in A.atoms(fn):
            if mentions(at.term, lambda s: s[0] == "call" and s[1].endswith("is_major_swap")):
                r_t = cfg.reach(fn, at.true_targets[0])
                r_f = cfg.reach(fn, at.false_targets[0], cut_blocks=[at.block])
                g = ws[0]["block"] in r_t and ws[0]["block"] not in r_f
        pv = prov_of(fn)
        ok = g and is_param(pv._rvalue(ws[0]["rv"], ws[0]["block"], ws[0]["stmt"], 0), "current_timestamp")
    run.check("R4", "major-swap-only", ok, "last_major_swap_timestamp is stored outside `if is_major_swap(..)?` or not from the current timestamp", loc=fn.loc(), detail="is_major_swap(pre, post, threshold)? => ts := now")
    ms = facts.need_fn(AFV + "is_major_swap")
    run.touch(ms)
    okr = [dict(strip(l)[3])["0"] for l in _returns(ms) if strip(l)[0] == "agg" and strip(l)[2] == "Ok"]
    ok = len(okr) == 1 and strip(okr[0])[0] == "bin" and strip(okr[0])[1] in ("Ge", "Le")
    if ok:
        r = strip(okr[0])
        big, tgt = (r[2], r[3]) if r[1] == "Ge" else (r[3], r[2])
        big = strip(big)
        ok = big[0] == "field" and big[2] == "1" and is_call(big[1], "increasing_price_order")
        shr = [s_ for s_ in subterms(tgt) if s_[0] == "call" and s_[1].endswith("shift_right")]
        ok = ok and len(shr) == 1 and (const_val(shr[0][2][1]) == 64 or (strip(shr[0][2][1])[0] == "cast" and const_val(strip(shr[0][2][1])[1]) == 64))
        if ok:
            mul = strip(shr[0][2][0])
            ok = mul[0] == "call" and mul[1].endswith("::mul") and \
                any(mentions(x, lambda s_: s_[0] == "field" and s_[2] == "0" and is_call(s_[1], "increasing_price_order")) for x in mul[2]) and \
                any(mentions(x, lambda s_: s_[0] == "call" and s_[1].endswith("sqrt_price_from_tick_index") and mentions(s_, lambda z: z[0] == "param" and z[1] == "major_swap_threshold_ticks")) for x in mul[2])
    if not ok:
        # the ordering of the two prices written in place (`if pre > post { (post, pre) } else { (pre, post) }`): decided per outcome
        # of that comparison
        from rules.common import decided
        names2 = [n_ for n_ in ms.param_names() if n_ != "major_swap_threshold_ticks" and n_ != "self"]
        sel = [(at, decided(at, lambda t: is_param(t, names2[0]), ("Gt", "Ge"))) for at in A.atoms(ms)] if len(names2) == 2 else []
        sel = [(at, dc) for at, dc in sel if dc is not None and is_param(dc[2], names2[1])]
        if len(sel) == 1:
            at, dc = sel[0]
            good = True
            for holds in (True, False):
                truth = holds if dc[3] == at.true_targets else (not holds)
                pa = prov_assuming(ms, [(at, truth)])
                hi_n, lo_n = (names2[0], names2[1]) if holds else (names2[1], names2[0])
                rr = [dict(strip(l)[3])["0"] for l in _returns(ms, pa) if strip(l)[0] == "agg" and strip(l)[2] == "Ok"]
                g1 = len(rr) == 1 and strip(rr[0])[0] == "bin" and strip(rr[0])[1] in ("Ge", "Le")
                if g1:
                    r = strip(rr[0])
                    big, tgt = (r[2], r[3]) if r[1] == "Ge" else (r[3], r[2])
                    shr = [s_ for s_ in subterms(tgt) if s_[0] == "call" and s_[1].endswith("shift_right")]
                    g1 = is_param(strip(big), hi_n) and len(shr) == 1 and (const_val(shr[0][2][1]) == 64 or (strip(shr[0][2][1])[0] == "cast" and const_val(strip(shr[0][2][1])[1]) == 64))
                    if g1:
                        mul = strip(shr[0][2][0])
                        g1 = mul[0] == "call" and mul[1].endswith("::mul") and any(mentions(x, lambda s_: is_param(s_, lo_n)) for x in mul[2]) and \
                            not any(mentions(x, lambda s_: is_param(s_, hi_n)) for x in mul[2]) and \
                            any(mentions(x, lambda s_: s_[0] == "call" and s_[1].endswith("sqrt_price_from_tick_index") and mentions(s_, lambda z: z[0] == "param" and z[1] == "major_swap_threshold_ticks")) for x in mul[2])
                good = good and g1
            ok = good
    run.check("R4", "is_major_swap", ok, "is_major_swap is not `larger >= (smaller * price(threshold ticks)) >> 64` (a move of exactly the threshold counts)", loc=ms.loc(),
              detail="larger >= (smaller * sqrt_price_from_tick_index(threshold)) >> 64")
    cs = calls_to(fn, ends("AdaptiveFeeVariables::is_major_swap"))
    ok = len(cs) == 1 and is_param(cs[0][2][0], "pre_sqrt_price") and is_param(cs[0][2][1], "post_sqrt_price") and arg_name(cs[0][2][2]) == "major_swap_threshold_ticks"
    run.check("R4", "major-swap-inputs", ok, "is_major_swap is not given (pre price, post price, constants.major_swap_threshold_ticks)", loc=fn.loc(), detail="(pre, post, threshold)")
    sw = facts.need_fn(SL.SWAP)
    m = SL.SwapModel(facts, {})
    cs = calls_to(sw, ends("FeeRateManager::update_major_swap_timestamp"), ctx={}, cut=True)
    ok = len(cs) == 1 and is_param(cs[0][2][1], "timestamp") and acc_chain(cs[0][2][2]) is None and is_field(cs[0][2][2], "sqrt_price") and m.is_var(cs[0][2][3], "price")
    run.check("R4", "major-swap-call", ok, "swap() does not report (timestamp, pool's start price, final price) to update_major_swap_timestamp", loc=sw.loc(), detail="(now, whirlpool.sqrt_price, final price)")


def R5_stored_variables(run):
    run.title("R5", "the variables written back to an oracle are the swap result's next_adaptive_fee_info of the same pool (get_next_adaptive_fee_info of the manager), and the "
                    "accessor stores only into an initialised oracle bound to that pool")
    facts = run.facts
    sw = facts.need_fn(SL.SWAP)
    f = SL.SwapModel(facts, {}).result_fields()
    ok = is_call(f["next_adaptive_fee_info"], "get_next_adaptive_fee_info")
    run.check("R5", "result-from-manager", ok, "PostSwapUpdate.next_adaptive_fee_info is %s, expected fee_rate_manager.get_next_adaptive_fee_info()" % sh(f["next_adaptive_fee_info"], 60), loc=sw.loc(),
              detail="next_adaptive_fee_info := manager.get_next_adaptive_fee_info()")
    g = facts.need_fn(FRM + "get_next_adaptive_fee_info")
    cons = [c for c in writes.constructions(facts, "state::oracle::AdaptiveFeeInfo") if c["fn"] is g]
    ok = len(cons) == 1
    if ok:
        pv = prov_of(g)
        c = cons[0]
        ok = arg_name(pv.operand(c["fields"]["constants"], c["block"], c["stmt"])) == "adaptive_fee_constants" and arg_name(pv.operand(c["fields"]["variables"], c["block"], c["stmt"])) == "adaptive_fee_variables"
    run.check("R5", "info-fields", ok, "get_next_adaptive_fee_info does not return {constants: constants, variables: variables}", loc=g.loc(), detail="{constants, variables} by name")
    for hp in ("instructions::swap::handler", "instructions::v2::swap::handler"):
        h = facts.need_fn(hp)
        cs = calls_to(h, ends("OracleAccessor::<'info>::update_adaptive_fee_variables"))
        ok = len(cs) == 1 and arg_name(cs[0][2][1]) == "next_adaptive_fee_info" and cfg.must_pass_call(h, cs[0][0])[0]
        if ok:
            oa = [s for s in subterms(cs[0][2][0]) if s[0] == "call" and s[1].endswith("OracleAccessor::<'info>::new")]
            ok = bool(oa) and acc(oa[0][2][0]) == "whirlpool" and acc(oa[0][2][1]) == "oracle"
        run.check("R5", "handler@" + hp, ok, "%s does not store swap_update.next_adaptive_fee_info through the accessor of (whirlpool, oracle)" % hp, loc=h.loc(), detail="accessor(whirlpool, oracle).update(next info)?")
    u = facts.need_fn("state::oracle::OracleAccessor::<'info>::update_adaptive_fee_variables")
    # read with load_mut and Oracle::update_adaptive_fee_variables spliced in: one store, adaptive_fee_variables := info.variables,
    # into the Oracle mapped over this accessor's own account data behind its discriminator, after the writability test
    run.touch(u)
    pvu = prov_of(u)
    sts = [w for w in writes.field_stores(facts) if w["fn"] is u and w["adt"] == "state::oracle::Oracle"]
    ok = len(sts) == 1 and sts[0]["field"] == "adaptive_fee_variables"
    why = "stores into Oracle fields %s" % sorted(w["field"] for w in sts)
    if ok:
        w = sts[0]
        st_ = u.blocks[w["block"]]["s"][w["stmt"]]
        val = pvu._rvalue(w["rv"], w["block"], w["stmt"], 0)
        base = pvu.local(st_["p"]["l"], w["block"], w["stmt"])
        ok = arg_name(val) == "variables" and mentions(val, lambda t: t[0] == "param" and t[1] == "adaptive_fee_info")
        why = "stores %s" % sh(val, 60)
        if ok:
            ok = mentions(base, lambda t: t[0] == "call" and t[1].endswith("try_borrow_mut_data") and is_field(t[2][0], "oracle_account_info") and acc_chain(t[2][0]) is None)
            why = "stores into %s" % sh(base, 80)
        if ok:
            cl = [t for t in subterms(base) if t[0] == "closure"]
            cf = facts.fn(cl[0][1]) if len(cl) == 1 else None
            sl = []
            if cf is not None:
                pc = prov_of(cf)
                for bi_, t_ in cf.calls():
                    if (callee_path(t_) or "").endswith("from_bytes_mut"):
                        sl = [x for x in subterms(pc.operand(t_["a"][0], bi_, len(cf.blocks[bi_]["s"]))) if x[0] == "agg" and x[1].endswith("Range")]
            ok = len(sl) == 1 and const_val(dict(sl[0][3])["start"]) == 8
            why = "the Oracle view does not start behind the 8-byte discriminator"
        if ok:
            wr = [at for at in A.atoms(u) if mentions(at.term, lambda t: t[0] == "field" and t[2] == "is_writable") and at.false_fail]
            ok = len(wr) == 1 and A.guarded_by(u, wr[0], w["block"])
            why = "the store is not behind the writability test of the oracle account"
    run.check("R5", "accessor-stores-variables", ok, "the accessor does not store adaptive_fee_info.variables into its own writable oracle account: %s" % why, loc=u.loc(),
              detail="oracle(view of oracle_account_info data[8..]).adaptive_fee_variables := info.variables, after !is_writable => AccountNotMutable")


def _is_self_field(t, name):
    t = strip(t)
    return t[0] == "field" and t[2] == name


def R6_stepping(run):
    run.title("R6", "each loop step refreshes the accumulator before pricing (update_volatility_accumulator()? precedes get_total_fee_rate and compute_swap on every iteration), "
                    "prices up to the group-bounded target, and advances the group by exactly one advance call chosen by the skip flag; the bounded target stops at the current "
                    "group's boundary in the trade direction; rate formula = ceil(factor * (acc * group_size)^2 / (100_000 * 10_000 * 10_000))")
    facts = run.facts
    cv = facts.const_value
    for path, want in (("state::oracle::ADAPTIVE_FEE_CONTROL_FACTOR_DENOMINATOR", 100000), ("state::oracle::VOLATILITY_ACCUMULATOR_SCALE_FACTOR", 10000),
                       ("state::oracle::REDUCTION_FACTOR_DENOMINATOR", 10000), ("state::oracle::MAX_REFERENCE_AGE", 3600)):
        run.check("R6", "const@" + path.rsplit("::", 1)[1], cv(path) == want, "%s = %s, expected %s" % (path, cv(path), want), detail=str(want))
    fn = facts.need_fn(FRM + "compute_adaptive_fee_rate")
    run.touch(fn)
    # the quotient is a polynomial identity: numerator = factor * (accumulator * group_size)^2, denominator = 10^13, however the
    # products are associated or named; it may be wrapped by the hard-limit minimum and the narrowing cast
    form = list({x for r in _returns(fn) for x in subterms(r) if x[0] == "call" and x[1].endswith("ceil_division_u128")})
    ok = len(form) == 1
    if ok:
        nm = lambda x: arg_name(x) or sh(x, 40)
        num, den = P.poly(form[0][2][0], nm), P.poly(form[0][2][1], nm)
        ok = num == {tuple(sorted(["adaptive_fee_control_factor", "volatility_accumulator", "volatility_accumulator", "tick_group_size", "tick_group_size"])): 1} and den == {(): 10 ** 13}
    # the u128 quotient is capped before it is narrowed: no `as` cast to a narrower integer is applied to a value that is not
    # already bounded by the hard limit (a 2^32 rate truncates to 0 otherwise)
    from rules.C06 import narrowing_casts
    uncapped = [(src, ty, t_) for (_, src, ty, t_) in narrowing_casts(fn)
                if mentions(t_, lambda x: x[0] == "call" and x[1].endswith("ceil_division_u128")) and
                not (strip(t_)[0] == "call" and strip(t_)[1].rsplit("::", 1)[-1] == "min" and any(const_val(z) is not None for z in strip(t_)[2]))]
    run.check("R6", "cap-before-narrowing", not uncapped, "compute_adaptive_fee_rate narrows the rate before capping it: %s" % ["%s as %s" % (sh(t_, 50), ty) for (_s, ty, t_) in uncapped],
              loc=fn.loc(), detail="min(quotient, FEE_RATE_HARD_LIMIT) as u32, never (quotient as u32).min(..)")
    run.check("R6", "rate-formula", ok, "compute_adaptive_fee_rate is not ceil_division_u128(control_factor * (accumulator * tick_group_size)^2, 100_000 * 10_000 * 10_000)", loc=fn.loc(),
              detail="ceil(factor * (acc * size)^2 / 1e13)")
    sw = facts.need_fn(SL.SWAP)
    run.touch(sw)
    m = SL.SwapModel(facts, {})
    uva = calls_to(sw, ends("FeeRateManager::update_volatility_accumulator"), ctx={}, cut=True)
    rate = calls_to(sw, ends("FeeRateManager::get_total_fee_rate"), ctx={}, cut=True)
    bnd = calls_to(sw, ends("FeeRateManager::get_bounded_sqrt_price_target"), ctx={}, cut=True)
    cs = calls_to(sw, ends("compute_swap"), ctx={}, cut=True)
    adv = calls_to(sw, ends("FeeRateManager::advance_tick_group"), ctx={}, cut=True)
    skp = calls_to(sw, ends("FeeRateManager::advance_tick_group_after_skip"), ctx={}, cut=True)
    ok = all(len(x) == 1 for x in (uva, rate, bnd, cs, adv, skp))
    run.check("R6", "loop-sites", ok, "swap() must contain exactly one call each of update_volatility_accumulator, get_total_fee_rate, get_bounded_sqrt_price_target, compute_swap, advance_tick_group, advance_tick_group_after_skip",
              loc=sw.loc(), detail="6 call sites")
    if not ok:
        return
    u, r, b, c, a, k = uva[0][0], rate[0][0], bnd[0][0], cs[0][0], adv[0][0], skp[0][0]
    ok = cfg.result_checked(sw, u) and cfg.dominates(sw, u, r) and cfg.dominates(sw, r, c) and cfg.dominates(sw, b, c)
    # every way from this step's pricing back to the next pricing goes through the refresh
    succ = sw.succ()
    again = any(c in succ[x] for x in cfg.reach(sw, succ[c], cut_blocks=[u]))
    ok = ok and not again
    run.check("R6", "refresh-before-every-step", ok, "a loop iteration can reach compute_swap without a checked update_volatility_accumulator() since the previous step", loc=sw.loc(uva[0][1]["l"]),
              detail="update_volatility_accumulator()? dominates the step and cuts the back edge")
    tgt = strip(cs[0][2][4])
    flag_ok = mentions(tgt, lambda s: s[0] == "call" and s[1].endswith("get_bounded_sqrt_price_target")) and not mentions(tgt, lambda s: s[0] == "bin")
    ba = bnd[0][2]
    ok = flag_ok and m.is_var(ba[2], "liquidity") and mentions(m.expand(ba[1]), lambda s: s[0] == "call" and s[1].endswith("sqrt_price_from_tick_index"))
    run.check("R6", "bounded-target-used", ok, "compute_swap's target is %s; expected .0 of get_bounded_sqrt_price_target(sqrt_price_target, current liquidity)" % sh(tgt, 80), loc=sw.loc(cs[0][1]["l"]),
              detail="target := bounded(sqrt_price_target, liquidity).0")
    flag = None
    for at in A.atoms(sw, ctx={}, cut=True):
        if mentions(at.term, lambda s: s[0] == "call" and s[1].endswith("get_bounded_sqrt_price_target")) and not (at.cond() and at.cond()[0] not in ("Eq", "Ne")):
            flag = at
    ok = flag is not None
    if ok:
        rt = cfg.reach(sw, flag.true_targets[0], cut_blocks=[u])
        rf = cfg.reach(sw, flag.false_targets[0], cut_blocks=[u])
        ok = (k in rt and a not in rt and a in rf and k not in rf) and cfg.result_checked(sw, k)
    run.check("R6", "advance-by-skip-flag", ok, "the skip flag of get_bounded_sqrt_price_target does not select advance_tick_group (false) / advance_tick_group_after_skip()? (true) exclusively", loc=sw.loc(),
              detail="!skipped => advance_tick_group; skipped => advance_tick_group_after_skip?")
    ka = skp[0][2]
    # the second argument is the next tick's own price - sqrt_price_from_tick_index(next_tick_index) and nothing around it (the
    # step target is that price clamped by the caller's limit: with a limit inside a skipped stretch the two differ)
    nx = strip(m.expand(ka[2]))
    ok = m.is_var(ka[1], "price") and nx[0] == "call" and nx[1].endswith("sqrt_price_from_tick_index") and len(nx[2]) == 1 and \
        strip(m.expand(nx[2][0])) == strip(m.expand(ka[3])) and mentions(ka[3], lambda s: s[0] == "call" and s[1].endswith("get_next_initialized_tick_index"))
    run.check("R6", "skip-advance-inputs", ok, "advance_tick_group_after_skip is not given (current price, next tick's price, next tick index)", loc=sw.loc(skp[0][1]["l"]), detail="(price, next_tick_sqrt_price, next_tick_index)")
    g = facts.need_fn(FRM + "advance_tick_group")
    run.touch(g)
    pv = prov_of(g)
    st = [w for w in writes.field_stores(facts) if w["fn"] is g and w["kind"] == "assign"]
    ok = len(st) == 1
    if ok:
        v = strip(pv._rvalue(st[0]["rv"], st[0]["block"], st[0]["stmt"], 0))
        ok = v[0] == "bin" and v[1].startswith("Add") and _is_self_field(v[2], "tick_group_index") and sorted(const_val(x) for x in leaves(v[3])) == [-1, 1]
        dirs = [at for at in A.atoms(g) if _is_self_field(at.term, "a_to_b")]
        if ok and len(dirs) == 1:
            vt = strip(prov_assuming(g, [(dirs[0], True)])._rvalue(st[0]["rv"], st[0]["block"], st[0]["stmt"], 0))
            ok = const_val(vt[3]) == -1
        else:
            ok = False
    run.check("R6", "advance-one-group", ok, "advance_tick_group does not move tick_group_index by -1 (a_to_b) / +1 (b_to_a)", loc=g.loc(), detail="group += a_to_b ? -1 : +1")
    fn = facts.need_fn(FRM + "get_bounded_sqrt_price_target")
    dirs = [at for at in A.atoms(fn) if _is_self_field(at.term, "a_to_b")]
    for d, fname, extra in ((True, "max", False), (False, "min", True)):
        pvd = prov_assuming(fn, [(at, d) for at in dirs])
        rs = [strip(r) for r in _returns(fn, pvd)]
        step = [r for r in rs if r[0] == "tuple" and const_val(r[1][1]) == 0 and not is_param(r[1][0], "sqrt_price")]
        ok = len(step) == 1
        if ok:
            v = strip(step[0][1][0])
            ok = v[0] == "call" and v[1].endswith("::" + fname) and any(is_param(x, "sqrt_price") for x in v[2])
            bt = [strip(x) for x in v[2] if not is_param(x, "sqrt_price")]
            ok = ok and len(bt) == 1 and is_call(bt[0], "sqrt_price_from_tick_index")
            if ok:
                cl = strip(bt[0][2][0])
                ok = cl[0] == "call" and cl[1].endswith("::clamp") and const_val(cl[2][1]) == -443636 and const_val(cl[2][2]) == 443636
                tick = strip(cl[2][0]) if ok else None
                if ok:
                    base = tick
                    if extra:
                        ok = tick[0] == "bin" and tick[1].startswith("Add") and arg_name(tick[3]) == "tick_group_size"
                        base = strip(tick[2]) if ok else None
                    ok = ok and base[0] == "bin" and base[1].startswith("Mul") and _is_self_field(base[2], "tick_group_index") and arg_name(base[3]) == "tick_group_size"
        run.check("R6", "group-boundary@a_to_b=%s" % d, ok, "with a_to_b=%s the non-skip target is not %s(target, price_at(clamp(group * size%s)))" % (d, fname, " + size" if extra else ""), loc=fn.loc(),
                  detail="%s(target, sqrt_price_from_tick_index(clamp(group * size%s)))" % (fname, " + size" if extra else ""))
    nw = facts.need_fn(FRM + "new")
    cons = [c for c in writes.constructions(facts, "manager::fee_rate_manager::FeeRateManager") if c["fn"] is nw and c.get("variant") == "Adaptive"]
    ok = len(cons) == 1
    if ok:
        pv = prov_of(nw)
        c = cons[0]
        f = {n: strip(pv.operand(o, c["block"], c["stmt"])) for n, o in c["fields"].items()}
        ok = is_param(f["a_to_b"], "a_to_b") and is_param(f["static_fee_rate"], "static_fee_rate") and is_call(f["tick_group_index"], "floor_division")
    run.check("R6", "manager-state", ok, "FeeRateManager::Adaptive is not built from (a_to_b, floor(tick / group size), static_fee_rate, the oracle's constants and variables)", loc=nw.loc(),
              detail="Adaptive{a_to_b, group := floor(tick/size), static_fee_rate, constants, variables}")


def check_widths(run, rule, facts, afv, frm, tag=""):
    WIDTH = {"u8": 8, "u16": 16, "u32": 32, "u64": 64, "u128": 128}

    def arith(fn):
        pv = prov_of(fn)
        out = []
        for bi, bb in enumerate(fn.blocks):
            for si, st in enumerate(bb["s"]):
                if st["k"] == "=" and st["rv"].get("bin") in ("Mul", "MulWithOverflow", "Add", "AddWithOverflow"):
                    ty = fn.locals[st["p"]["l"]]["t"].strip("()").split(",")[0].strip()
                    out.append((st["rv"]["bin"][:3], WIDTH.get(ty, 0), show(pv.operand(st["rv"]["a"], bi, si)), show(pv.operand(st["rv"]["b"], bi, si))))
        return out
    exp = [
        (afv + "update_reference", "decay product", "Mul", 64, lambda a, b: "volatility_accumulator" in a + b and "reduction_factor" in a + b),
        (afv + "update_volatility_accumulator", "delta scaling", "Mul", 64, lambda a, b: "VOLATILITY_ACCUMULATOR_SCALE_FACTOR" in a + b),
        (afv + "update_volatility_accumulator", "reference + scaled delta", "Add", 64, lambda a, b: "volatility_reference" in a + b),
        (frm + "compute_adaptive_fee_rate", "square", "Mul", 64, lambda a, b: "volatility_accumulator" in a and "volatility_accumulator" in b),
        (frm + "compute_adaptive_fee_rate", "factor * square", "Mul", 128, lambda a, b: "adaptive_fee_control_factor" in a + b),
        (frm + "compute_adaptive_fee_rate", "denominator", "Mul", 128, lambda a, b: "ADAPTIVE_FEE_CONTROL_FACTOR_DENOMINATOR" in a + b and "volatility_accumulator" not in a + b),
    ]
    for path, what, op, width, pred in exp:
        fn = facts.need_fn(path)
        run.touch(fn)
        hits = [x for x in arith(fn) if x[0] == op and pred(x[2], x[3])]
        ok = bool(hits) and all(h[1] >= width for h in hits)
        if not hits and what == "denominator":
            # the product may be a named constant: evaluated by the compiler (an overflow there does not compile), wide if its type is
            for (bi, t, args) in calls_to(fn, lambda p: p.endswith("ceil_division_u128")):
                d = strip(args[1])
                if d[0] == "const" and d[1] == 10 ** 13 and WIDTH.get(d[3], 0) >= width:
                    ok = True
        run.check(rule, "%s%s@%s" % (tag, what.replace(" ", "-"), path.rsplit("::", 1)[-1]), ok, "%s: the %s is computed in %s bits, needs >= %d" % (path, what, [h[1] for h in hits], width), loc=fn.loc(),
                  detail="%s in u%d" % (what, width))


def R7_widths(run):
    run.title("R7", "intermediate products are formed in a type wide enough for every validated constant set: accumulator * reduction_factor and |delta| * 10_000 (+ reference) in u64, "
                    "(acc * size)^2 in u64, control_factor * squared and the 1e13 denominator in u128 (release builds wrap silently: overflow-checks are off)")
    check_widths(run, "R7", run.facts, AFV, FRM)


RULES = [R1_clamps, R2_constants_validated, R3_reference_update, R4_gates, R5_stored_variables, R6_stepping, R7_widths]
