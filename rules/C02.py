"""C02 A swap step is priced on the exact curve, rounded only in the pool's favour.

Decided: the finite rounding-polarity table of compute_swap over (exact_in, a_to_b)
(input token amount rounded up, output down, through every wrapper down to the two
curve primitives); the increment idiom of the six rounding primitives (a `+1` is
reachable exactly when round_up and only behind a non-zero remainder test); the
next-price dispatch and its rounding; the fee / pre-fee budget formulas per mode;
the exact-out cap; which of the fixed / unfixed amounts becomes amount_in / out; the test
guarding each `+1` is the exact remainder of the operation that produced the incremented
value (Q64 mask / resolution constants, `%` of the same operands, the U256 division's own
remainder); the (min, max) price ordering; the reach-target decision (`lte` is v <= budget,
overflow counts as not reached, target taken exactly when lte).
Also decided: whether a curve amount fits u64 is decided only inside the two curve primitives (AmountDeltaU64 is built
nowhere else); no amount or rate is narrowed with `as` in the step computation or the loop (C06.R8 instances).
Not decided: equality with exact rational arithmetic, one-unit tightness, "as far as
the budget allows", correctness of the 256-bit division. Pure numerics."""
from analysis import cfg, atoms as A, preach, writes
from analysis.ir import callee_path, op_const, op_place, AnchorMissing
from analysis.prov import prov_of, prov_assuming, show, strip, leaves, subterms
from analysis.match import is_param, is_call, const_val, const_name, sh, mentions, call_args, fail_conditions
from rules.common import as_min, same_as_specialised

SM = "math::swap_math::"
TM = "math::token_math::"
BM = "math::bit_math::"


def polarity_events(facts, fn, ctx, depth=6):
    tg = lambda p: p in (TM + "try_get_amount_delta_a", TM + "try_get_amount_delta_b")
    return preach.call_events(facts, fn, ctx, tg, depth=depth)


def check_polarity_table(run, rule, fn, exact_name="amount_specified_is_input", dir_name="a_to_b", label=None):
    """Input token amount is rounded up and output token amount down in every context."""
    facts = run.facts
    label = label or fn.path
    for ctx in preach.contexts([exact_name, dir_name]):
        a_to_b = ctx[dir_name]
        ev = polarity_events(facts, fn, ctx)
        want = {(TM + "try_get_amount_delta_a", a_to_b), (TM + "try_get_amount_delta_b", not a_to_b)}
        got = {(p, v[3]) for (p, v) in ev}
        inst = "%s[exact_in=%s,a_to_b=%s]" % (label, int(ctx[exact_name]), int(a_to_b))
        run.check(rule, inst, got == want,
                  "rounding polarity of the swap step is wrong in context exact_in=%s a_to_b=%s: token A is the %s side and token B the %s side, "
                  "so A must be rounded %s and B %s" % (ctx[exact_name], a_to_b, "input" if a_to_b else "output", "output" if a_to_b else "input",
                                                        "up" if a_to_b else "down", "down" if a_to_b else "up"),
                  loc=fn.loc(), expected=str(sorted((p.rsplit("::", 1)[-1], r) for p, r in want)),
                  found=str(sorted((p.rsplit("::", 1)[-1], r) for p, r in got)),
                  detail="delta_a round_up=%s, delta_b round_up=%s" % (a_to_b, not a_to_b))


def R1_step_polarity(run):
    run.title("R1", "compute_swap: in each of the 4 (exact_in, a_to_b) contexts the reachable calls of the curve primitives are exactly "
                    "delta_a(round_up = a_to_b) and delta_b(round_up = !a_to_b): input up, output down (through all wrappers, inline bound 6)")
    fn = run.facts.need_fn(SM + "compute_swap")
    run.touch(fn)
    check_polarity_table(run, "R1", fn)
    # fixed side uses token A iff a_to_b == exact_in, with round_up = exact_in
    facts = run.facts
    for name, ru_is_exact in ((SM + "try_get_amount_fixed_delta", True), (SM + "get_amount_fixed_delta", True), (SM + "get_amount_unfixed_delta", False)):
        g = facts.fn(name)
        if g is None:
            # the selector was written into compute_swap: the polarity table above decides the same calls there
            run.ok("R1", "%s[written in place]" % name.rsplit("::", 1)[-1], detail="selector no longer exists as a function; its choice is decided on compute_swap (polarity table, R4 amounts)")
            continue
        run.touch(g)
        for ctx in preach.contexts(["amount_specified_is_input", "a_to_b"]):
            ei, ab = ctx["amount_specified_is_input"], ctx["a_to_b"]
            ev = polarity_events(facts, g, ctx)
            uses_a = (ab == ei)
            if not ru_is_exact:
                uses_a = not uses_a
            want_p = TM + ("try_get_amount_delta_a" if uses_a else "try_get_amount_delta_b")
            want = {(want_p, ei if ru_is_exact else (not ei))}
            got = {(p, v[3]) for (p, v) in ev}
            run.check("R1", "%s[exact_in=%d,a_to_b=%d]" % (name.rsplit("::", 1)[-1], ei, ab), got == want,
                      "%s picks the wrong token or rounding in context exact_in=%s a_to_b=%s" % (name, ei, ab), loc=g.loc(),
                      expected=str(want), found=str(got), detail="%s round_up=%s" % (want_p.rsplit("_", 1)[-1], list(want)[0][1]))


def R1b_who_decides_overflow(run):
    run.title("R1b", "whether a curve amount fits u64 is decided by the two curve primitives from the computed quotient and by nobody else: "
                     "AmountDeltaU64::{Valid, ExceedsMax} values are built only in try_get_amount_delta_a / _b (a shortcut elsewhere that declares "
                     "`ExceedsMax` from operand magnitudes lets compute_swap overshoot its target)")
    facts = run.facts
    adt = TM + "AmountDeltaU64"
    who = sorted({c["fn"].path for c in writes.constructions(facts, adt) if not c["fn"].expn and "test" not in c["fn"].file.rsplit("/", 1)[-1]})
    allowed = {TM + "try_get_amount_delta_a", TM + "try_get_amount_delta_b"}
    extra = [w for w in who if w not in allowed]
    run.check("R1b", "amount-delta-constructors", not extra and set(who) == allowed, "AmountDeltaU64 values are built in %s; expected only the two curve primitives" % (extra or who),
              loc=facts.fn(extra[0]).loc() if extra and facts.fn(extra[0]) else None, detail="built only in try_get_amount_delta_a / _b (%d sites)" % len(writes.constructions(facts, adt)))


INCR_PRIMS = [TM + "try_get_amount_delta_a", TM + "try_get_amount_delta_b", BM + "div_round_up_if", BM + "div_round_up_if_u256",
              BM + "checked_mul_div_round_up_if", BM + "checked_mul_shift_right_round_up_if"]


def delegates_rounding(fn):
    """(callee, ok) when fn has no increment of its own and hands the division to another audited rounding primitive with its own
    `round_up` flag (checked_mul_div_round_up_if ending in div_round_up_if(p, d, round_up)): the idiom is then that primitive's."""
    if increment_blocks(fn) or _incremented_terms(fn):
        return None
    pv = prov_of(fn)
    for bi, t in fn.calls():
        p = callee_path(t)
        if p in INCR_PRIMS and p != fn.path and not fn.blocks[bi]["c"]:
            args = [pv.operand(a, bi, len(fn.blocks[bi]["s"])) for a in t["a"]]
            flag_ok = bool(args) and is_param(args[-1], "round_up")
            # the result is propagated, or matched on (an Err mapped to a value of its own, like ExceedsMax, is still a decision)
            return p, flag_ok and bool(cfg.result_checked(fn, bi) or t["d"]["l"] == 0 or cfg.result_ok_edge(fn, bi) is not None)
    return None


def increment_blocks(fn):
    """Blocks that add one: `x + 1` on integers or `.add(U256Muldiv::new(0, 1))`."""
    pv = prov_of(fn)
    out = set()
    for bi, bb in enumerate(fn.blocks):
        if bb["c"]:
            continue
        for si, st in enumerate(bb["s"]):
            if st["k"] == "=" and st["rv"].get("bin") in ("Add", "AddWithOverflow", "AddUnchecked"):
                for side in ("a", "b"):
                    k = op_const(st["rv"][side])
                    if k is not None and k.get("v") == "1":
                        out.add(bi)
        t = bb["t"]
        if t["k"] == "call" and (callee_path(t) or "").rsplit("::", 1)[-1] in ("checked_add", "wrapping_add", "overflowing_add", "saturating_add", "strict_add") \
                and len(t["a"]) == 2 and (op_const(t["a"][1]) or {}).get("v") == "1":
            out.add(bi)   # `x.checked_add(1)`: the same increment, with the overflow case made explicit
        if t["k"] == "call" and (callee_path(t) or "").endswith("U256Muldiv::add"):
            arg = pv.operand(t["a"][1], bi, len(bb["s"]))
            s = strip(arg)
            if s[0] == "call" and s[1].endswith("U256Muldiv::new") and [const_val(x) for x in s[2]] == [0, 1]:
                out.add(bi)
    return out


def check_increment_idiom(run, rule, fn, param="round_up", up=True, inc=None, tag=""):
    """`up` is the value of `param` under which the function rounds up (False for an inverted flag)."""
    inc = increment_blocks(fn) if inc is None else inc
    inst = tag + fn.path
    if not inc:
        run.missing(rule, "incr@" + inst, "no `+ 1` increment site found in %s" % fn.path, loc=fn.loc())
        return
    fl_f = preach.flow(fn, {param: (not up)})
    fl_t = preach.flow(fn, {param: up})
    reach_f = fl_f.reachable() & inc
    reach_t = fl_t.reachable() & inc
    run.check(rule, "no-incr-when-down@" + inst, not reach_f,
              "%s can add one although %s == %s (rounds up when asked to round down)" % (fn.path, param, str(not up).lower()), loc=fn.loc(),
              detail="increment blocks %s unreachable when %s=%s" % (sorted(inc), param, str(not up).lower()))
    run.check(rule, "incr-when-up@" + inst, bool(reach_t),
              "%s never adds one when %s == %s (does not round up)" % (fn.path, param, str(up).lower()), loc=fn.loc(),
              detail="increment reachable when %s=%s" % (param, str(up).lower()))
    # and a path to a successful return without the increment exists (exact division is not bumped):
    ok = False
    if reach_t:
        # cut the increment blocks; under ctx true a success return must remain reachable through feasible edges
        seen = set()
        work = [0]
        succ = fn.succ()
        errs = cfg.err_assign_blocks(fn)
        while work:
            b = work.pop()
            if b in seen or b in inc or b in errs:
                continue
            seen.add(b)
            if fn.blocks[b]["t"]["k"] == "ret":
                ok = True
            for s in succ[b]:
                if (b, s) in fl_t.edge_feasible:
                    work.append(s)
    run.check(rule, "incr-conditional@" + inst, ok,
              "%s adds one unconditionally when %s == %s (no remainder test: exact results would be off by one)" % (fn.path, param, str(up).lower()), loc=fn.loc(),
              detail="a non-incrementing return path exists when %s=%s (remainder == 0)" % (param, str(up).lower()))


def check_increment_overflow(run, rule, fn):
    """A quotient obtained by shifting a wide product right and narrowing it (`(p >> 64) as u64`) can be the type's maximum with a
    non-zero remainder; adding one must then be refused (`== MAX` test before the increment, or `checked_add` whose None is an
    error), not wrap (release builds have overflow checks off) and not saturate (that rounds down)."""
    pv = prov_of(fn)
    sites = []
    for bi, bb in enumerate(fn.blocks):
        if bb["c"]:
            continue
        for si, st in enumerate(bb["s"]):
            if st["k"] == "=" and st["rv"].get("bin") in ("Add", "AddWithOverflow", "AddUnchecked"):
                for a, b in (("a", "b"), ("b", "a")):
                    k = op_const(st["rv"][b])
                    if k is not None and k.get("v") == "1":
                        sites.append((bi, "plain", pv.operand(st["rv"][a], bi, si)))
        t = bb["t"]
        if t["k"] == "call" and len(t["a"]) == 2 and (op_const(t["a"][1]) or {}).get("v") == "1":
            last = (callee_path(t) or "").rsplit("::", 1)[-1]
            if last in ("checked_add", "wrapping_add", "overflowing_add", "saturating_add", "strict_add"):
                sites.append((bi, last, pv.operand(t["a"][0], bi, len(bb["s"]))))
    narrowed = []
    for bi, how, term in sites:
        t0 = term
        while t0[0] == "q":
            t0 = t0[1]
        if t0[0] == "cast" and strip(t0)[0] == "bin" and strip(t0)[1] == "Shr":
            narrowed.append((bi, how, term, t0[2]))
    for bi, how, term, ty in narrowed:
        maxv = {"u64": (1 << 64) - 1, "u128": (1 << 128) - 1, "u32": (1 << 32) - 1}.get(ty)
        ok = how in ("checked_add", "strict_add")
        if not ok and how == "plain" and maxv is not None:
            for at in A.atoms(fn):
                c = at.cond()
                if c and c[0] in ("Eq", "Ne"):
                    for x, y in ((c[1], c[2]), (c[2], c[1])):
                        if const_val(y) == maxv and strip(x) == strip(term):
                            hit = at.true_targets if c[0] == "Eq" else at.false_targets
                            r = set()
                            for b in hit:
                                r |= cfg.reach(fn, b, cut_blocks=[at.block])
                            if bi not in r:
                                ok = True
        run.check(rule, "incr-overflow@" + fn.path, ok, "%s adds one to a narrowed quotient (%s) without refusing the case quotient == %s::MAX (%s)" % (fn.path, sh(term, 60), ty, how),
                  loc=fn.loc(), detail="== MAX refused before the increment / checked_add")
    return len(narrowed)


def R2c_result_from_division(run):
    run.title("R2c", "the four curve primitives have no way to a result around their division: apart from the zero short-circuits (a tested value == 0), every successful "
                     "return value is computed from the quotient / shifted product (an added `nothing to do` fast path whose bound is off by one bit prices whole units wrongly)")
    facts = run.facts
    DIV_CALLS = ("::div", "div_round_up_if_u256", "div_round_up_if", "checked_div", "checked_mul_shift_right", "checked_mul_shift_right_round_up_if", "checked_mul_div",
                 "checked_mul_div_round_up", "checked_mul_div_round_up_if", "div_euclid")

    def from_division(t):
        return mentions(t, lambda s_: (s_[0] == "call" and s_[1].endswith(DIV_CALLS)) or (s_[0] == "bin" and s_[1] in ("Div", "Shr", "ShrUnchecked")))
    n = 0
    for name in ("try_get_amount_delta_a", "try_get_amount_delta_b", "get_next_sqrt_price_from_a_round_up", "get_next_sqrt_price_from_b_round_down"):
        fn = facts.need_fn(TM + name)
        run.touch(fn)
        def raw_zero(at):
            t = strip(at.term)      # (the raw test: `hi - lo == 0` is normalised to `hi == lo` by cond())
            return t[0] == "bin" and t[1] in ("Eq", "Ne") and (const_val(t[2]) == 0 or const_val(t[3]) == 0) and not isinstance(const_val(t[2]), bool) and not isinstance(const_val(t[3]), bool)
        zero_tests = [at for at in A.atoms(fn) if raw_zero(at)]
        # every zero test answered "not zero"
        asm = [(at, strip(at.term)[1] == "Ne") for at in zero_tests]
        pv = prov_assuming(fn, asm) if asm else prov_of(fn)
        bad = []
        for bi, bb in enumerate(fn.blocks):
            if bb["t"]["k"] != "ret" or (pv.flow is not None and pv.flow.state_in[bi] is None):
                continue
            for l in leaves(pv.local(0, bi, len(bb["s"]))):
                l = strip(l)
                if l[0] == "agg" and l[2] == "Ok":
                    v = strip(dict(l[3])["0"])
                    vals = []
                    for x in leaves(v):
                        x = strip(x)
                        if x[0] == "agg" and x[2] == "ExceedsMax":
                            continue
                        vals.append(strip(dict(x[3])["0"]) if (x[0] == "agg" and x[2] == "Valid") else x)
                    for x in vals:
                        for y in leaves(x):
                            if not from_division(y):
                                bad.append(sh(y, 60))
                elif l[0] == "call" and l[1].endswith("ok_or") and not from_division(l):
                    bad.append(sh(l, 60))
        n += 1
        run.check("R2c", "result-from-division@" + name, not bad, "%s can return %s without going through its division (other than on a zero short-circuit)" % (TM + name, sorted(set(bad))[:3]),
                  loc=fn.loc(), detail="%d zero short-circuit(s); every other result derives from the quotient" % len(zero_tests))
    run.floor("R2c", "curve primitives", n, 4)


def R2_rounding_primitives(run):
    run.title("R2", "the six rounding primitives add one only in context round_up = true and only behind a remainder test; the round_up-free "
                    "wrappers pass the constant their name says")
    facts = run.facts
    n_narrow = 0
    for p in INCR_PRIMS:
        fn = facts.need_fn(p)
        run.touch(fn)
        dg = delegates_rounding(fn)
        if dg is not None:
            run.check("R2", "incr-delegated@" + fn.path, dg[1], "%s hands its rounding to %s but not with its own round_up flag / unchecked" % (fn.path, dg[0]), loc=fn.loc(),
                      detail="rounds through %s(.., round_up)" % dg[0].rsplit("::", 1)[-1])
            continue
        check_increment_idiom(run, "R2", fn)
        n_narrow += check_increment_overflow(run, "R2", fn)
    run.floor("R2", "increments of narrowed shift quotients", n_narrow, 2)
    wrappers = [(BM + "checked_mul_div", BM + "checked_mul_div_round_up_if", 3, False),
                (BM + "checked_mul_div_round_up", BM + "checked_mul_div_round_up_if", 3, True),
                (BM + "div_round_up", BM + "div_round_up_if", 2, True),
                (BM + "checked_mul_shift_right", BM + "checked_mul_shift_right_round_up_if", 2, False)]
    for w, callee, idx, val in wrappers:
        fn = facts.need_fn(w)
        run.touch(fn)
        ev = preach.call_events(facts, fn, {}, lambda p: p == callee, depth=0)
        got = {v[idx] for (_, v) in ev}
        if not got and facts.fn(callee) is not None:
            # the wrapper spells the primitive out for its own flag instead of calling it
            cfn = facts.fn(callee)
            same, why = same_as_specialised(fn, cfn, {cfn.param_names()[idx]: val})
            run.check("R2", "wrapper@" + w, same, "%s neither calls %s nor computes what it does for round_up = %s: %s" % (w, callee, val, why),
                      loc=fn.loc(), detail="own body equals %s specialised to round_up = %s" % (callee.rsplit("::", 1)[-1], val))
            continue
        run.check("R2", "wrapper@" + w, got == {val}, "%s passes round_up = %s to %s, expected %s" % (w, sorted(map(str, got)), callee, val),
                  loc=fn.loc(), detail="round_up = %s" % val)
        # the other arguments are forwarded in order
        pv = prov_of(fn)
        for bi, t in fn.calls():
            if callee_path(t) == callee:
                args = [pv.operand(a, bi, len(fn.blocks[bi]["s"])) for a in t["a"][:idx]]
                names = fn.param_names()
                ok = all(is_param(a, names[i]) for i, a in enumerate(args))
                run.check("R2", "wrapper-args@" + w, ok, "%s does not forward its arguments in order: %s" % (w, [sh(a, 30) for a in args]), loc=fn.loc(),
                          detail="forwards %s" % names[:idx])
    # get_amount_delta_{a,b} forward to try_ variants unchanged
    for x in ("a", "b"):
        fn = facts.need_fn(TM + "get_amount_delta_" + x)
        pv = prov_of(fn)
        ok = False
        for bi, t in fn.calls():
            if callee_path(t) == TM + "try_get_amount_delta_" + x:
                args = [pv.operand(a, bi, len(fn.blocks[bi]["s"])) for a in t["a"]]
                ok = all(is_param(a, n) for a, n in zip(args, fn.param_names()))
        run.check("R2", "forward@get_amount_delta_" + x, ok, "get_amount_delta_%s does not forward (prices, liquidity, round_up) unchanged" % x, loc=fn.loc(),
                  detail="forwards all four parameters in order")


def _inplace_division_up(g):
    """Increment blocks of g when g rounds one U256 division up in place: exactly one `.add(U256Muldiv::new(0, 1))`, applied to field 0 of a
    U256Muldiv::div(..) result, reachable only on the non-zero side of `is_zero(field 1 of the same division)`, the zero side returning the
    plain quotient. Empty set otherwise."""
    inc = increment_blocks(g)
    if len(inc) != 1:
        return set()
    bi = next(iter(inc))
    t = g.blocks[bi]["t"]
    pv = prov_of(g)
    q = strip(pv.operand(t["a"][0], bi, len(g.blocks[bi]["s"])))
    if not (q[0] == "field" and q[2] == "0" and strip(q[1])[0] == "call" and strip(q[1])[1].endswith("U256Muldiv::div")):
        return set()
    for at in A.atoms(g):
        x = strip(at.term)
        if not (x[0] == "call" and x[1].endswith("U256Muldiv::is_zero") and len(x[2]) == 1):
            continue
        r = strip(x[2][0])
        if not (r[0] == "field" and r[2] == "1" and strip(r[1]) == strip(q[1])):
            continue
        zero_side = cfg.reach(g, at.true_targets[0], cut_blocks=[at.block])
        rest_side = cfg.reach(g, at.false_targets[0], cut_blocks=[at.block])
        # the increment only when the remainder is not zero; the zero side still reaches a successful return
        if bi in rest_side and bi not in zero_side and cfg.success_reach(g, at.true_targets[0], cut_blocks=[bi]) and cfg.dominates(g, at.block, bi):
            return inc
    return set()


def R3_next_price(run):
    run.title("R3", "get_next_sqrt_price: exact_in == a_to_b selects from_a (division always rounded up, MIN/MAX price errors), otherwise from_b "
                    "(delta rounded up iff !exact_in); add/sub of the amount follows exact_in")
    facts = run.facts
    fn = facts.need_fn(TM + "get_next_sqrt_price")
    run.touch(fn)
    fa, fb = TM + "get_next_sqrt_price_from_a_round_up", TM + "get_next_sqrt_price_from_b_round_down"
    for ctx in preach.contexts(["amount_specified_is_input", "a_to_b"]):
        ei, ab = ctx["amount_specified_is_input"], ctx["a_to_b"]
        ev = preach.call_events(facts, fn, ctx, lambda p: p in (fa, fb), depth=0)
        want = {(fa if ei == ab else fb, ei)}
        got = {(p, v[3]) for p, v in ev}
        run.check("R3", "dispatch[exact_in=%d,a_to_b=%d]" % (ei, ab), got == want,
                  "get_next_sqrt_price dispatches wrongly for exact_in=%s a_to_b=%s" % (ei, ab), loc=fn.loc(), expected=str(want), found=str(got),
                  detail="%s(exact_in=%s)" % (list(want)[0][0].rsplit("::", 1)[-1], ei))
    # argument forwarding
    pv = prov_of(fn)
    for bi, t in fn.calls():
        if callee_path(t) in (fa, fb):
            args = [pv.operand(a, bi, len(fn.blocks[bi]["s"])) for a in t["a"]]
            ok = [is_param(args[0], "sqrt_price"), is_param(args[1], "liquidity"), is_param(args[2], "amount"), is_param(args[3], "amount_specified_is_input")]
            run.check("R3", "args@" + callee_path(t).rsplit("::", 1)[-1], all(ok), "arguments are not (sqrt_price, liquidity, amount, exact_in): %s" % [sh(a, 30) for a in args],
                      loc=fn.loc(t["l"]), detail="(sqrt_price, liquidity, amount, amount_specified_is_input)")
    # from_a
    g = facts.need_fn(fa)
    run.touch(g)
    ev = preach.call_events(facts, g, {}, lambda p: p == BM + "div_round_up_if_u256", depth=0)
    got = {v[2] for _, v in ev}
    inplace = set()
    if not ev:
        # the rounding division written in place: (q, r) = n.div(d, _); r.is_zero() ? q : q + 1 - the one increment of the function is taken
        # exactly when the remainder of the same division is not zero
        inplace = _inplace_division_up(g)
        run.check("R3", "from_a-division-up", bool(inplace), "from_a: the price division is neither div_round_up_if_u256(.., true) nor, written in place, quotient + 1 exactly when the "
                  "remainder of the same division is non-zero", loc=g.loc(), detail="(q, r) = n.div(d); r.is_zero() ? q : q + 1")
    else:
        run.check("R3", "from_a-division-up", got == {True}, "from_a: the price division is not always rounded up (round_up = %s)" % sorted(map(str, got)), loc=g.loc(),
                  detail="div_round_up_if_u256(.., true)")
    for val, want_fn, other in ((True, "U256Muldiv::add", "U256Muldiv::sub"), (False, "U256Muldiv::sub", "U256Muldiv::add")):
        ev = preach.call_events(facts, g, {"amount_specified_is_input": val},
                                lambda p: p.endswith("U256Muldiv::add") or p.endswith("U256Muldiv::sub"), depth=0)
        got = {p.rsplit("math::u256_math::", 1)[-1] for p, _ in ev}
        if inplace:
            # the rounding increment is an add of its own, not the denominator's
            live = preach.flow(g, {"amount_specified_is_input": val}).reachable() - inplace
            got = {(callee_path(t) or "").rsplit("math::u256_math::", 1)[-1] for bi, t in g.calls() if bi in live and not g.blocks[bi]["c"]
                   and (callee_path(t) or "").endswith(("U256Muldiv::add", "U256Muldiv::sub"))}
        run.check("R3", "from_a-denominator[exact_in=%d]" % val, got == {want_fn},
                  "from_a: with exact_in=%s the amount·price product must be %s the shifted liquidity" % (val, "added to" if val else "subtracted from"),
                  loc=g.loc(), expected=want_fn, found=str(sorted(got)), detail=want_fn)
    lo = hi = False
    for at in A.atoms(g):
        for (op, a, b) in fail_conditions(at):
            for (o, x, y) in ((op, a, b), (A.SWAP[op], b, a)):
                if mentions(x, lambda s: s[0] == "call" and (s[1].endswith("div_round_up_if_u256") or (inplace and s[1].endswith("U256Muldiv::div")))):
                    if o == "Lt" and const_val(y) == 4295048016:
                        lo = True
                    if o == "Gt" and const_val(y) == 79226673515401279992447579055:
                        hi = True
    run.check("R3", "from_a-min", lo, "from_a no longer fails when the new price is below MIN_SQRT_PRICE_X64", loc=g.loc(), detail="price < MIN => error")
    run.check("R3", "from_a-max", hi, "from_a no longer fails when the new price is above MAX_SQRT_PRICE_X64", loc=g.loc(), detail="price > MAX => error")
    # zero-liquidity / negative denominator guard for exact-out
    dz = any("DivideByZero" in (at.true_codes | at.false_codes) for at in A.atoms(g))
    run.check("R3", "from_a-divide-by-zero", dz, "from_a lost its DivideByZero guard for exact-out when liquidity<<64 <= amount*price", loc=g.loc(), detail="guard present")
    # from_b
    g = facts.need_fn(fb)
    run.touch(g)
    for val in (True, False):
        ev = preach.call_events(facts, g, {"amount_specified_is_input": val}, lambda p: p == BM + "div_round_up_if", depth=0)
        got = {v[2] for _, v in ev}
        run.check("R3", "from_b-delta-rounding[exact_in=%d]" % val, got == {not val},
                  "from_b: delta must be rounded %s when exact_in=%s" % ("down" if val else "up", val), loc=g.loc(), expected=str(not val), found=str(got),
                  detail="div_round_up_if(amount<<64, liquidity, %s)" % (not val))
        ev = preach.call_events(facts, g, {"amount_specified_is_input": val}, lambda p: "checked_add" in p or "checked_sub" in p, depth=0)
        got = {p.rsplit("::", 1)[-1] for p, _ in ev}
        want = "checked_add" if val else "checked_sub"
        run.check("R3", "from_b-direction[exact_in=%d]" % val, got == {want}, "from_b: price must move with %s when exact_in=%s" % (want, val), loc=g.loc(),
                  found=str(got), detail=want)


def R3b_from_b_formula(run):
    run.title("R3b", "get_next_sqrt_price_from_b_round_down: the price moves by div_round_up_if(amount << 64, liquidity, !exact_in) and by nothing else - the whole "
                     "liquidity divides the Q64.64 amount in every case (no branch that drops the low bits of the liquidity or of the amount)")
    facts = run.facts
    g = facts.need_fn(TM + "get_next_sqrt_price_from_b_round_down")
    run.touch(g)
    for val in (True, False):
        pv = prov_of(g, {"amount_specified_is_input": val})
        outs = []
        for bi, bb in enumerate(g.blocks):
            if bb["t"]["k"] == "ret" and pv.flow.state_in[bi] is not None:
                for l in leaves(pv.local(0, bi, len(bb["s"]))):
                    s_ = strip(l)
                    if s_[0] == "call" and "from_residual" in s_[1]:
                        continue
                    outs.append(s_)
        ok = len(outs) == 1
        why = [sh(x, 120) for x in outs]
        if ok:
            r = outs[0]
            ok = r[0] == "call" and r[1].endswith("ok_or") and is_call(r[2][0], "checked_add" if val else "checked_sub")
            if ok:
                a_ = strip(r[2][0])[2]
                d_ = strip(a_[1])
                ok = is_param(a_[0], "sqrt_price") and d_[0] == "call" and d_[1] == BM + "div_round_up_if"
                if ok:
                    n_, den_ = strip(d_[2][0]), strip(d_[2][1])
                    ok = n_[0] == "bin" and n_[1] in ("Shl", "ShlUnchecked") and is_param(strip(n_[2]), "amount") and const_val(n_[3]) == 64 and is_param(den_, "liquidity")
        run.check("R3b", "delta[exact_in=%d]" % val, ok, "from_b returns %s, expected sqrt_price %s div_round_up_if(amount << 64, liquidity, %s)?" % (why, "+" if val else "-", "false" if val else "true"),
                  loc=g.loc(), detail="sqrt_price %s ((amount << 64) / liquidity rounded %s)" % ("+" if val else "-", "down" if val else "up"))


def _step_fields(fn, ctx):
    pv = prov_of(fn, ctx)
    out = None
    for bi, bb in enumerate(fn.blocks):
        if bb["t"]["k"] == "ret" and pv.flow.state_in[bi] is not None:
            t = pv.local(0, bi, len(bb["s"]))
            for l in leaves(t):
                if l[0] == "agg" and l[2] == "Ok":
                    inner = dict(l[3]).get("0")
                    if inner and inner[0] == "agg" and inner[1].endswith("SwapStepComputation"):
                        out = dict(inner[3])
    if out is None:
        raise AnchorMissing("compute_swap does not return Ok(SwapStepComputation{..}) in context %s" % ctx)
    return out


def _prim_flag(s):
    """For a direct call of a curve primitive (the selector written in place): "exact" when its round-up flag is the
    amount_specified_is_input parameter, "inverse" when it is its negation, else None."""
    if s[0] == "call" and s[1] in (TM + "get_amount_delta_a", TM + "get_amount_delta_b", TM + "try_get_amount_delta_a", TM + "try_get_amount_delta_b") and len(s[2]) == 4:
        f = strip(s[2][3])
        if is_param(f, "amount_specified_is_input"):
            return "exact"
        if f[0] == "un" and f[1] == "Not" and is_param(strip(f[2]), "amount_specified_is_input"):
            return "inverse"
    return None


def _is_fixed(t):
    s = strip(t)
    if s[0] == "call" and s[1] in (SM + "get_amount_fixed_delta",):
        return True
    if s[0] == "call" and s[1].endswith("AmountDeltaU64::value") and mentions(s, lambda x: x[0] == "call" and (x[1] == SM + "try_get_amount_fixed_delta" or _prim_flag(x) == "exact")):
        return True
    # the same value taken out by a match on the Valid variant
    if s[0] == "payload" and s[2] == "Valid" and mentions(s[1], lambda x: x[0] == "call" and (x[1] == SM + "try_get_amount_fixed_delta" or _prim_flag(x) == "exact")):
        return True
    # the fixed side rounds as the mode says (up for an input, down for an output); which token: the polarity table (R1)
    return _prim_flag(s) == "exact"


def _is_unfixed(t):
    s = strip(t)
    return (s[0] == "call" and s[1] == SM + "get_amount_unfixed_delta") or _prim_flag(s) == "inverse"


def R4_fee_and_amounts(run):
    run.title("R4", "compute_swap outputs per mode: exact-in: amount_in = fixed delta, amount_out = unfixed delta, budget = floor(remaining*(1e6-rate)/1e6), "
                    "fee = remaining - amount_in when the target is not reached else ceil(in*rate/(1e6-rate)); exact-out: amount_in = unfixed, "
                    "amount_out = min(fixed, remaining), fee = ceil(in*rate/(1e6-rate))")
    facts = run.facts
    fn = facts.need_fn(SM + "compute_swap")
    run.touch(fn)

    def is_fee_ceil(t, amount_in_pred):
        s = strip(t)
        if not (s[0] == "call" and s[1] == BM + "checked_mul_div_round_up" and len(s[2]) == 3):
            return False
        a, r, d = s[2]
        dd = strip(d)
        return (all(amount_in_pred(x) for x in leaves(strip(a))) and is_param(r, "fee_rate") and dd[0] == "bin" and dd[1] == "Sub"
                and const_val(dd[2]) == 1000000 and is_param(dd[3], "fee_rate"))

    # exact-in
    f = _step_fields(fn, {"amount_specified_is_input": True})
    run.check("R4", "exact-in.amount_in", all(_is_fixed(x) for x in leaves(f["amount_in"])), "exact-in: amount_in is not the fixed-side delta: %s" % sh(f["amount_in"]),
              loc=fn.loc(), detail="amount_in := fixed delta")
    run.check("R4", "exact-in.amount_out", all(_is_unfixed(x) for x in leaves(f["amount_out"])), "exact-in: amount_out is not the unfixed-side delta: %s" % sh(f["amount_out"]),
              loc=fn.loc(), detail="amount_out := unfixed delta")
    fee_leaves = leaves(f["fee_amount"])
    rem = [x for x in fee_leaves if strip(x)[0] == "bin" and strip(x)[1] == "Sub"]
    ceil = [x for x in fee_leaves if is_fee_ceil(x, _is_fixed)]
    ok_rem = len(rem) == 1 and is_param(strip(rem[0])[2], "amount_remaining") and all(_is_fixed(y) for y in leaves(strip(rem[0])[3]))
    run.check("R4", "exact-in.fee-remainder", ok_rem, "exact-in: the non-max-step fee is not amount_remaining - amount_in: %s" % [sh(x, 80) for x in fee_leaves], loc=fn.loc(),
              detail="fee := amount_remaining - amount_in")
    run.check("R4", "exact-in.fee-ceil", len(ceil) == 1 and len(fee_leaves) == 2,
              "exact-in: the max-step fee is not checked_mul_div_round_up(amount_in, fee_rate, 1e6 - fee_rate): %s" % [sh(x, 120) for x in fee_leaves], loc=fn.loc(),
              detail="fee := ceil(amount_in * fee_rate / (1e6 - fee_rate))")
    # which one applies: the remainder form only when next_price != target
    pv = prov_of(fn, {"amount_specified_is_input": True})
    sub_blocks = set()
    for bi, bb in enumerate(fn.blocks):
        for si, st in enumerate(bb["s"]):
            if st["k"] == "=" and st["rv"].get("bin") in ("Sub", "SubWithOverflow"):
                a = pv.operand(st["rv"]["a"], bi, si)
                if is_param(a, "amount_remaining"):
                    sub_blocks.add(bi)
    guard = False
    for at in A.atoms(fn):
        c = at.cond()
        if c and c[0] in ("Eq", "Ne") and (is_param(c[1], "sqrt_price_target") or is_param(c[2], "sqrt_price_target")):
            eq_t = at.true_targets[0] if c[0] == "Eq" else at.false_targets[0]
            ne_t = at.false_targets[0] if c[0] == "Eq" else at.true_targets[0]
            r_eq = cfg.reach(fn, eq_t)
            r_ne = cfg.reach(fn, ne_t)
            if sub_blocks and sub_blocks <= r_ne and not (sub_blocks & r_eq):
                guard = True
    run.check("R4", "exact-in.fee-remainder-guard", guard, "the `remaining - amount_in` fee is not restricted to steps that stop short of the target price", loc=fn.loc(),
              detail="remainder fee only when next_price != sqrt_price_target")
    # budget
    pvn = prov_of(fn, {"amount_specified_is_input": True})
    budget_ok = False
    for bi, t in fn.calls():
        if callee_path(t) == TM + "get_next_sqrt_price" and pvn.flow.state_in[bi] is not None:
            amt = strip(pvn.operand(t["a"][2], bi, len(fn.blocks[bi]["s"])))
            if amt[0] == "call" and amt[1] == BM + "checked_mul_div":
                a, n, d = amt[2]
                nn = strip(n)
                budget_ok = (is_param(a, "amount_remaining") and nn[0] == "bin" and nn[1] == "Sub" and const_val(nn[2]) == 1000000
                             and is_param(nn[3], "fee_rate") and const_val(d) == 1000000)
    run.check("R4", "exact-in.budget", budget_ok, "exact-in: the pre-fee budget is not floor(amount_remaining * (1e6 - fee_rate) / 1e6)", loc=fn.loc(),
              detail="checked_mul_div(amount_remaining, 1e6 - fee_rate, 1e6)")
    ev = preach.call_events(facts, fn, {"amount_specified_is_input": False}, lambda p: p == BM + "checked_mul_div", depth=0)
    run.check("R4", "exact-out.no-budget-discount", not ev, "exact-out: the requested output is reduced by the fee rate", loc=fn.loc(), detail="no checked_mul_div on the exact-out path")
    # exact-out
    f = _step_fields(fn, {"amount_specified_is_input": False})
    run.check("R4", "exact-out.amount_in", all(_is_unfixed(x) for x in leaves(f["amount_in"])), "exact-out: amount_in is not the unfixed-side delta: %s" % sh(f["amount_in"]),
              loc=fn.loc(), detail="amount_in := unfixed delta")
    has_min = False
    for ab in (False, True):
        fo = _step_fields(fn, {"amount_specified_is_input": False, "a_to_b": ab})
        raw = leaves(fo["amount_out"])
        mins = [as_min(x) for x in raw]     # `fixed.min(amount_remaining)`: the cap written as a minimum
        if raw and all(mins):
            # every alternative is itself a minimum of (fixed-side delta, amount_remaining)
            has_min = True
            outs = []
            for m in mins:
                sides = [leaves(m[0]), leaves(m[1])]
                okm = any(all(is_param(y, "amount_remaining") for y in sd) for sd in sides) and any(all(_is_fixed(y) for y in sd) for sd in sides)
                outs.extend(sides[0] + sides[1] if okm else [("unknown", "min of something else")])
            outs = list(dict.fromkeys(outs))
        else:
            outs = raw
        cap = [x for x in outs if is_param(x, "amount_remaining")]
        fixed = [x for x in outs if _is_fixed(x)]
        run.check("R4", "exact-out.amount_out[a_to_b=%d]" % ab, len(cap) == 1 and fixed and len(cap) + len(fixed) == len(outs),
                  "exact-out (a_to_b=%s): amount_out is not min(fixed delta, amount_remaining): %s" % (ab, [sh(x, 80) for x in outs]), loc=fn.loc(),
                  detail="amount_out in {fixed delta, amount_remaining}")
        fi = _step_fields(fn, {"amount_specified_is_input": True, "a_to_b": ab})
        run.check("R4", "exact-in.fields[a_to_b=%d]" % ab, all(_is_fixed(x) for x in leaves(fi["amount_in"])) and all(_is_unfixed(x) for x in leaves(fi["amount_out"]))
                  and len(leaves(fi["fee_amount"])) == 2,
                  "exact-in (a_to_b=%s): amount_in/amount_out/fee are not (fixed, unfixed, {remainder | ceil})" % ab, loc=fn.loc(), detail="(fixed, unfixed, 2 fee forms)")
    fee_leaves = leaves(f["fee_amount"])
    run.check("R4", "exact-out.fee-ceil", len(fee_leaves) == 1 and is_fee_ceil(fee_leaves[0], _is_unfixed),
              "exact-out: fee is not checked_mul_div_round_up(amount_in, fee_rate, 1e6 - fee_rate): %s" % [sh(x, 120) for x in fee_leaves], loc=fn.loc(),
              detail="fee := ceil(amount_in * fee_rate / (1e6 - fee_rate))")
    # cap guard: amount_out > amount_remaining
    capok = False
    for at in A.atoms(fn):
        c = at.cond()
        if c and c[0] in ("Gt", "Lt"):
            o, x, y = (c[0], c[1], c[2]) if c[0] == "Gt" else ("Gt", c[2], c[1])
            if is_param(y, "amount_remaining") and any(_is_fixed(l) for l in leaves(strip(x))):
                # the true side performs the cap assignment
                capok = True
    run.check("R4", "exact-out.cap-guard", capok or has_min, "the exact-out cap is not guarded by amount_out > amount_remaining", loc=fn.loc(), detail="amount_out > amount_remaining => amount_out := amount_remaining")
    # next price: target when the fixed amount fits, else computed
    f2 = _step_fields(fn, {})
    np = leaves(f2["next_price"])
    ok = any(is_param(x, "sqrt_price_target") for x in np) and any(strip(x)[0] == "call" and strip(x)[1] == TM + "get_next_sqrt_price" for x in np) and len(np) == 2
    run.check("R4", "next-price", ok, "next_price is not {sqrt_price_target | get_next_sqrt_price(..)}: %s" % [sh(x, 60) for x in np], loc=fn.loc(),
              detail="next_price in {target, get_next_sqrt_price(current, liquidity, amount_calc, exact_in, a_to_b)}")
    # the curve calls use (current, next) prices and the pool liquidity
    pv0 = prov_of(fn)
    for bi, t in fn.calls():
        p = callee_path(t)
        if p in (TM + "get_amount_delta_a", TM + "get_amount_delta_b", TM + "try_get_amount_delta_a", TM + "try_get_amount_delta_b") and not fn.blocks[bi]["c"]:
            # a selector written in place: the primitives themselves on (current price, <next/target price>, liquidity, flag)
            args = [pv0.operand(a, bi, len(fn.blocks[bi]["s"])) for a in t["a"]]
            ok = is_param(args[0], "sqrt_price_current") and is_param(args[2], "liquidity") and _prim_flag(("call", p, tuple(args))) is not None
            run.check("R4", "curve-args@%s:bb%d" % (p.rsplit("::", 1)[-1], bi), ok, "%s is not called with (current price, <next/target price>, liquidity, [!]exact_in)" % p,
                      loc=fn.loc(t["l"]), found=str([sh(a, 40) for a in args]), detail="(sqrt_price_current, _, liquidity, [!]exact_in)")
        if p in (SM + "get_amount_fixed_delta", SM + "get_amount_unfixed_delta", SM + "try_get_amount_fixed_delta"):
            args = [pv0.operand(a, bi, len(fn.blocks[bi]["s"])) for a in t["a"]]
            ok = is_param(args[0], "sqrt_price_current") and is_param(args[2], "liquidity") and is_param(args[3], "amount_specified_is_input") and is_param(args[4], "a_to_b")
            run.check("R4", "curve-args@%s:bb%d" % (p.rsplit("::", 1)[-1], bi), ok, "%s is not called with (current price, <next/target price>, liquidity, exact_in, a_to_b)" % p,
                      loc=fn.loc(t["l"]), found=str([sh(a, 40) for a in args]), detail="(sqrt_price_current, _, liquidity, exact_in, a_to_b)")



def _incremented_terms(fn):
    """Terms x of every `x + 1` / `x.add(1)` site: [(block, term)]."""
    pv = prov_of(fn)
    out = []
    for bi, bb in enumerate(fn.blocks):
        if bb["c"]:
            continue
        for si, st in enumerate(bb["s"]):
            if st["k"] == "=" and st["rv"].get("bin") in ("Add", "AddWithOverflow", "AddUnchecked"):
                ka, kb = op_const(st["rv"]["a"]), op_const(st["rv"]["b"])
                if kb is not None and kb.get("v") == "1":
                    out.append((bi, strip(pv.operand(st["rv"]["a"], bi, si))))
                elif ka is not None and ka.get("v") == "1":
                    out.append((bi, strip(pv.operand(st["rv"]["b"], bi, si))))
        t = bb["t"]
        if t["k"] == "call" and (callee_path(t) or "").rsplit("::", 1)[-1] in ("checked_add", "wrapping_add", "overflowing_add", "saturating_add", "strict_add") \
                and len(t["a"]) == 2 and (op_const(t["a"][1]) or {}).get("v") == "1":
            out.append((bi, strip(pv.operand(t["a"][0], bi, len(bb["s"])))))
        if t["k"] == "call" and (callee_path(t) or "").endswith("U256Muldiv::add"):
            arg = strip(pv.operand(t["a"][1], bi, len(bb["s"])))
            if arg[0] == "call" and arg[1].endswith("U256Muldiv::new") and [const_val(x) for x in arg[2]] == [0, 1]:
                out.append((bi, strip(pv.operand(t["a"][0], bi, len(bb["s"])))))
    return out


def _uncast(t):
    t = strip(t)
    while t[0] == "cast":
        t = strip(t[1])
    return t


def check_remainder_exact(run, rule, fn):
    """The test guarding the `+ 1` is the exact remainder of the very division / shift that produced the incremented value."""
    incs = _incremented_terms(fn)
    inst = "remainder-exact@" + fn.path
    if not incs:
        run.missing(rule, inst, "no increment site in " + fn.path, loc=fn.loc())
        return
    ats = A.atoms(fn)
    problems = []
    for bi, q in incs:
        q = _uncast(q)
        # `n.checked_div(d).ok_or(E)?` is `n / d` behind a zero test (for unsigned integers None means d == 0 and nothing else)
        if q[0] == "call" and q[1].endswith("ok_or") and is_call(q[2][0], "checked_div"):
            cd_ = strip(q[2][0])
            q = ("bin", "Div", cd_[2][0], cd_[2][1])
        # the guarding atoms: those (other than a bare bool parameter) on whose one side only the increment is reachable
        guards = []
        for at in ats:
            if strip(at.term)[0] == "param":
                continue
            rt = cfg.reach(fn, at.true_targets[0], cut_blocks=[at.block])
            rf = cfg.reach(fn, at.false_targets[0], cut_blocks=[at.block])
            if (bi in rt) != (bi in rf):
                guards.append((at, bi in rt))
        # keep the guards that talk about a remainder
        ok = False
        for at, side in guards:
            for term in [x for x in leaves(at.term)] + [at.term]:
                c = None
                tt = strip(term)
                if tt[0] == "bin" and tt[1] in ("Gt", "Ne", "Lt", "Eq"):
                    c = tt
                if q[0] == "bin" and q[1] == "Shr" and c is not None:
                    # (P & M) > 0 with M = 2^S - 1 and Q = P >> S
                    lhs, rhs = (_uncast(c[2]), c[3]) if const_val(c[3]) == 0 else (_uncast(c[3]), c[2])
                    if const_val(rhs) == 0 and lhs[0] == "bin" and lhs[1] == "BitAnd":
                        P, S = strip(q[2]), const_val(q[3])
                        m_ok = [x for x in (lhs[2], lhs[3]) if const_val(x) is not None]
                        p_ok = [x for x in (lhs[2], lhs[3]) if strip(x) == P]
                        if S is not None and m_ok and p_ok and const_val(m_ok[0]) == (1 << S) - 1:
                            ok = True
                elif q[0] == "bin" and q[1] == "Div" and c is not None:
                    lhs, rhs = (_uncast(c[2]), c[3]) if const_val(c[3]) == 0 else (_uncast(c[3]), c[2])
                    if const_val(rhs) == 0 and lhs[0] == "bin" and lhs[1] == "Rem" and strip(lhs[2]) == strip(q[2]) and strip(lhs[3]) == strip(q[3]):
                        ok = True
                elif q[0] == "field" and q[2] == "0" and is_call(q[1], "U256Muldiv::div"):
                    # !div(N, D, _).1.is_zero()
                    if is_call(tt, "is_zero"):
                        r = strip(tt[2][0])
                        if r[0] == "field" and r[2] == "1" and is_call(r[1], "U256Muldiv::div") and strip(r[1])[2][:2] == strip(q[1])[2][:2]:
                            ok = True
        if not ok:
            problems.append("block %d increments %s but no guard tests the exact remainder of that operation" % (bi, sh(q, 80)))
        # ... and that division is the only truncation: its dividend is not itself a truncated quotient (x / a / b rounded up by the last
        # remainder alone is floor(x / a) / b rounded up - one unit short whenever only the first division left a remainder)
        dividend = None
        if q[0] == "bin" and q[1] in ("Div", "Shr"):
            dividend = q[2]
        elif q[0] == "field" and q[2] == "0" and is_call(q[1], "U256Muldiv::div"):
            dividend = strip(q[1])[2][0]
        if dividend is not None:
            inner = [x for x in subterms(dividend) if (x[0] == "bin" and x[1] in ("Div", "Shr")) or (x[0] == "call" and x[1].endswith(("U256Muldiv::div", "::shift_word_right", "::shift_right", "::checked_div", "::div_ceil")))]
            if inner:
                problems.append("block %d rounds up %s, whose dividend is already a truncated quotient (%s)" % (bi, sh(q, 60), sh(inner[0], 60)))
    run.check(rule, inst, not problems, "; ".join(problems), loc=fn.loc(), detail="%d increment(s) guarded by the exact remainder of the same division / shift" % len(incs))


def R5_exact_remainders(run):
    run.title("R5", "Q64_RESOLUTION = 64, Q64_MASK = 2^64 - 1, TO_Q64 = 2^64; in every rounding primitive the test guarding the `+ 1` is the exact remainder of the very operation that "
                    "produced the incremented value: (p & (2^s - 1)) > 0 for p >> s, p % d > 0 for p / d, !div(n, d).1.is_zero() for div(n, d).0")
    facts = run.facts
    cv = facts.const_value
    run.check("R5", "Q64_RESOLUTION", cv(BM + "Q64_RESOLUTION") == 64, "Q64_RESOLUTION = %s" % cv(BM + "Q64_RESOLUTION"), detail="64")
    run.check("R5", "Q64_MASK", cv(BM + "Q64_MASK") == (1 << 64) - 1, "Q64_MASK = %s, expected 2^64 - 1 (a narrower mask drops remainders and rounds inputs down)" % cv(BM + "Q64_MASK"), detail="2^64 - 1")
    run.check("R5", "TO_Q64", cv(BM + "TO_Q64") == 1 << 64, "TO_Q64 = %s" % cv(BM + "TO_Q64"), detail="2^64")
    for p in INCR_PRIMS:
        fn = facts.need_fn(p)
        if delegates_rounding(fn) is not None:
            continue      # decided on the primitive it delegates to (R2 incr-delegated)
        check_remainder_exact(run, "R5", fn)
    # the 256-bit division hands back a literal zero remainder only for a zero dividend (when the remainder is asked for):
    # every other early exit must return the true remainder, or the ceil forms above silently become floors
    dv = facts.need_fn("math::u256_math::U256Muldiv::div")
    run.touch(dv)
    fl = preach.flow(dv, {"return_remainder": True})
    pvd = prov_of(dv, {"return_remainder": True})
    zero_at = [at for at in A.atoms(dv) if at.cond() and at.cond()[0] == "Eq" and const_val(at.cond()[2]) == 0 and is_call(at.cond()[1], "num_words") and
               not mentions(at.cond()[1], lambda s_: s_[0] == "param" and s_[1] == "divisor")]
    ok = len(zero_at) == 1
    bad_sites = []
    if ok:
        za = zero_at[0]
        # blocks reachable when the dividend is NOT zero, under return_remainder = true
        seen, work = set(), [0]
        succ = dv.succ()
        while work:
            b_ = work.pop()
            if b_ in seen:
                continue
            seen.add(b_)
            for n_ in succ[b_]:
                if (b_, n_) not in fl.edge_feasible:
                    continue
                if b_ == za.block and n_ in za.true_targets and n_ not in za.false_targets:
                    continue
                work.append(n_)
        for d_ in pvd.defs.get(0, []):
            if d_[2] is not None or d_[0] not in seen:
                continue
            t_ = strip(pvd._site(d_, 0))
            if t_[0] == "tuple" and len(t_[1]) == 2:
                r_ = strip(t_[1][1])
                if r_[0] == "call" and r_[1].endswith("U256Muldiv::new") and [const_val(x) for x in r_[2]] == [0, 0]:
                    bad_sites.append(dv.blocks[d_[0]]["s"][d_[1]]["l"] if d_[1] < len(dv.blocks[d_[0]]["s"]) else d_[0])
    run.check("R5", "div-remainder-contract", ok and not bad_sites, "U256Muldiv::div(.., return_remainder = true) can return a literal zero remainder for a non-zero dividend (source lines %s)" % bad_sites,
              loc=dv.loc(), detail="zero remainder literal only when the dividend is zero")
    # the (lower, upper) ordering every delta is computed from
    po = facts.need_fn(TM + "increasing_price_order")
    run.touch(po)
    ats = [at for at in A.atoms(po) if at.cond() and at.cond()[0] in ("Gt", "Lt", "Ge", "Le")]
    ok = len(ats) == 1
    if ok:
        at = ats[0]
        c = at.cond()
        first_greater = (c[0] in ("Gt", "Ge")) == is_param(c[1], "sqrt_price_0")
        res = {}
        for truth in (True, False):
            pva = prov_assuming(po, [(at, truth)])
            for bi, bb in enumerate(po.blocks):
                if bb["t"]["k"] == "ret" and pva.flow.state_in[bi] is not None:
                    vals = [strip(x) for x in leaves(pva.local(0, bi, len(bb["s"])))]
                    res[truth] = [tuple(strip(y)[1] for y in v[1]) for v in vals if v[0] == "tuple"]
        # when sqrt_price_0 is the greater one the pair is swapped
        sw, keep = [("sqrt_price_1", "sqrt_price_0")], [("sqrt_price_0", "sqrt_price_1")]
        ok = (res.get(True) == sw and res.get(False) == keep) if first_greater else (res.get(True) == keep and res.get(False) == sw)
    if not ats:
        # written with the library selections: (min(p0, p1), max(p0, p1)) of the two parameters
        pvo = prov_of(po)
        lv = [strip(l) for bi, bb in enumerate(po.blocks) if bb["t"]["k"] == "ret" for l in leaves(pvo.local(0, bi, len(bb["s"])))]
        def sel(t, name):
            t = strip(t)
            return t[0] == "call" and t[1].rsplit("::", 1)[-1] == name and len(t[2]) == 2 and {strip(a)[1] for a in t[2] if strip(a)[0] == "param"} == {"sqrt_price_0", "sqrt_price_1"}
        ok = len(lv) == 1 and lv[0][0] == "tuple" and len(lv[0][1]) == 2 and sel(lv[0][1][0], "min") and sel(lv[0][1][1], "max")
    run.check("R5", "price-order", ok, "increasing_price_order does not return (min, max) of its two prices", loc=po.loc(), detail="(lower, upper) = (min, max)")


def R6_reach_target_decision(run):
    run.title("R6", "compute_swap reaches its target iff initial_fixed_delta.lte(budget), where lte is Valid(v) => v <= budget and ExceedsMax => false; exceeds_max() is true exactly for "
                    "ExceedsMax; the re-computed fixed delta is used iff the step stopped short or the first estimate overflowed")
    from rules.common import enum_arms, arm_prov
    facts = run.facts
    T = TM + "AmountDeltaU64::"
    lte = facts.need_fn(T + "lte")
    run.touch(lte)
    arms = enum_arms(lte, facts, lambda t: is_param(t, "self"))
    ok = arms is not None
    got = {}
    if ok:
        sw, amap = arms
        for v, tgt in amap.items():
            pv = arm_prov(lte, sw, tgt)
            vals = []
            for bi, bb in enumerate(lte.blocks):
                if bb["t"]["k"] == "ret" and pv.flow.state_in[bi] is not None:
                    vals += [strip(x) for x in leaves(pv.local(0, bi, len(bb["s"])))]
            got[v] = vals
        va = got.get("Valid", [])
        ok = len(va) == 1 and va[0][0] == "bin" and ((va[0][1] == "Le" and is_param(va[0][3], "other")) or (va[0][1] == "Ge" and is_param(va[0][2], "other"))) and \
            [const_val(x) for x in got.get("ExceedsMax", [])] == [0]
        if not ok and sorted(const_val(x) for x in va if const_val(x) is not None) == [0, 1] and len(va) == 2 and [const_val(x) for x in got.get("ExceedsMax", [])] == [0]:
            # `matches!(self, Valid(v) if *v <= other)`: the comparison is a guard that returns true on one side, false on the other
            rc = [at.ret_cond(1) for at in A.atoms(lte) if at.ret_cond(1) is not None]
            ok = len(rc) == 1 and ((rc[0][0] == "Le" and is_param(rc[0][2], "other")) or (rc[0][0] == "Ge" and is_param(rc[0][1], "other")))
    run.check("R6", "lte", ok, "AmountDeltaU64::lte is %s; expected Valid(v) => v <= other, ExceedsMax => false (with `<` a budget that exactly pays for the move to the target overshoots it)" %
              {k: [sh(x, 40) for x in v] for k, v in got.items()}, loc=lte.loc(), detail="Valid(v) => v <= other; ExceedsMax => false")
    ex = facts.need_fn(T + "exceeds_max")
    arms = enum_arms(ex, facts, lambda t: is_param(t, "self"))
    ok = arms is not None
    if ok:
        sw, amap = arms
        got = {}
        for v, tgt in amap.items():
            pv = arm_prov(ex, sw, tgt)
            got[v] = [const_val(x) for bi, bb in enumerate(ex.blocks) if bb["t"]["k"] == "ret" and pv.flow.state_in[bi] is not None for x in leaves(pv.local(0, bi, len(bb["s"])))]
        ok = got == {"Valid": [0], "ExceedsMax": [1]}
    else:
        # `matches!(self, ExceedsMax(_))`: the comparison discriminant(self) == ExceedsMax (or != Valid)
        pvx = prov_of(ex)
        rr = [strip(pvx.local(0, bi, len(bb["s"]))) for bi, bb in enumerate(ex.blocks) if bb["t"]["k"] == "ret"]
        dsc = dict((str(v_), n_) for n_, v_ in (facts.adts.get(TM + "AmountDeltaU64") or {}).get("discrs", []))
        if len(rr) == 1 and rr[0][0] == "bin" and rr[0][1] in ("Eq", "Ne"):
            for (a_, b_) in ((strip(rr[0][2]), rr[0][3]), (strip(rr[0][3]), rr[0][2])):
                if a_[0] == "discr" and mentions(a_, lambda s_: is_param(s_, "self")) and const_val(b_) is not None:
                    nm = dsc.get(str(const_val(b_)))
                    ok = (nm == "ExceedsMax" and rr[0][1] == "Eq") or (nm == "Valid" and rr[0][1] == "Ne")
    run.check("R6", "exceeds_max", ok, "AmountDeltaU64::exceeds_max is not false for Valid and true for ExceedsMax", loc=ex.loc(), detail="Valid => false; ExceedsMax => true")
    fn = facts.need_fn(SM + "compute_swap")
    dec = [at for at in A.atoms(fn) if is_call(at.term, "AmountDeltaU64::lte")]
    ok = len(dec) == 1
    if ok:
        at = dec[0]
        c = strip(at.term)
        src = strip(c[2][0])
        ok = mentions(src, lambda s: s[0] == "call" and (s[1].endswith("try_get_amount_fixed_delta") or (s[1].startswith(TM + "try_get_amount_delta_") and _prim_flag(s) == "exact")))
        budget = [strip(x) for x in leaves(c[2][1])]
        ok = ok and all(is_param(x, "amount_remaining") or mentions(x, lambda s: s[0] == "call" and s[1].endswith("checked_mul_div")) for x in budget)
        pvt = prov_assuming(fn, [(at, True)])
        pvf = prov_assuming(fn, [(at, False)])

        def next_prices(pv):
            out = set()
            for bi, bb in enumerate(fn.blocks):
                if bb["t"]["k"] == "ret" and pv.flow.state_in[bi] is not None:
                    for l in leaves(pv.local(0, bi, len(bb["s"]))):
                        l = strip(l)
                        if l[0] == "agg" and l[2] == "Ok":
                            q = strip(dict(l[3])["0"])
                            if q[0] == "agg":
                                for x in leaves(dict(q[3])["next_price"]):
                                    x = strip(x)
                                    out.add("target" if is_param(x, "sqrt_price_target") else ("computed" if mentions(x, lambda s: s[0] == "call" and s[1].endswith("get_next_sqrt_price")) else sh(x, 30)))
            return out
        nt, nf = next_prices(pvt), next_prices(pvf)
        ok = ok and nt == {"target"} and nf == {"computed"}
    run.check("R6", "reach-target", ok, "compute_swap does not take the target price exactly when initial_fixed_delta.lte(budget) and get_next_sqrt_price(..budget..) otherwise", loc=fn.loc(),
              detail="lte(budget) => next = target; else next = get_next_sqrt_price(current, liquidity, budget, ..)")
    re_at = [at for at in A.atoms(fn) if is_call(at.term, "AmountDeltaU64::exceeds_max") or any(is_call(x, "AmountDeltaU64::exceeds_max") for x in leaves(at.term))]
    # `.value()` of the first estimate is only taken behind an exceeds_max() test; a match on the Valid variant carries that test
    # in itself, and a delta that is always re-computed needs none
    pv0 = prov_of(fn)
    takes_value = any(callee_path(t).endswith("AmountDeltaU64::value") and mentions(pv0.operand(t["a"][0], bi, len(fn.blocks[bi]["s"])), lambda s: s[0] == "call" and s[1].endswith("try_get_amount_fixed_delta"))
                      for bi, t in fn.calls() if callee_path(t) and not fn.blocks[bi]["c"])
    run.check("R6", "recompute-on-overflow", len(re_at) >= 1 or not takes_value, "compute_swap no longer re-computes the fixed delta when the first estimate exceeded u64", loc=fn.loc(),
              detail="!is_max || exceeds_max() => recompute" if re_at else "the first estimate is used through its Valid variant only")


RULES = [R1_step_polarity, R1b_who_decides_overflow, R2_rounding_primitives, R2c_result_from_division, R3_next_price, R3b_from_b_formula, R4_fee_and_amounts, R5_exact_remainders, R6_reach_target_decision]
