"""Events of the Pinocchio handlers (used by C12.R8; C06 / C16 through the cross-check table).

EV1  each Pinocchio `Event` variant has the fields of the Anchor `#[event]` struct of the same name: same names, same order, same
     Borsh types (`&Pubkey` serialises as `Pubkey`), so the emitted bytes decode with the published IDL;
EV2  each variant is tagged with the Anchor discriminator of that struct;
EV3  `emit` writes discriminator[..7], Borsh-serialises the enum (variant byte + payload) and then overwrites byte 7 with
     discriminator[7] - the variant byte is replaced, the payload is not shifted;
EV4  at every emission site the pool and position are the handler's own accounts and every token-A field is fed from token-A
     quantities (token-B likewise); the serialised event fits the buffer.
Not decided: that indexers interpret the numbers as intended."""
import re
from analysis import cfg, pino
from analysis.ir import callee_path
from analysis.prov import prov_of, strip, subterms, leaves, show
from analysis.match import is_param, is_field, const_val, sh, mentions
from analysis import layout as L
from rules.common import calls_to, ends, arg_name, enum_arms, arm_prov

EV = "pinocchio::events::Event"


def _borsh_ty(t):
    t = t.replace(" ", "")
    if "Pubkey" in t:
        return "Pubkey"
    return t


def R_events(run, rule="R8"):
    run.title(rule, "Pinocchio events: variant fields = the Anchor #[event] struct's fields (names, order, Borsh types); variant -> that struct's discriminator; emit = "
                    "discriminator[..7] + serialize(self) with byte 7 overwritten by discriminator[7]; emission sites feed token-A fields from token-A quantities and name "
                    "the handler's own pool and position")
    facts = run.facts
    ev = facts.need_adt(EV)
    sizes = {}
    for v in ev["variants"]:
        name = v["name"]
        an = facts.adts.get("events::" + name)
        if an is None:
            run.missing(rule, "layout:" + name, "no Anchor event struct events::%s" % name)
            continue
        pf = [(f["name"], _borsh_ty(f["ty"])) for f in v["fields"]]
        af = [(f["name"], _borsh_ty(f["ty"])) for f in an["variants"][0]["fields"]]
        run.check(rule, "layout:" + name, pf == af, "Pinocchio Event::%s has fields %s, the Anchor event has %s" % (name, pf, af), loc="%s:%s" % (ev["file"], ev["line"]),
                  detail="%d fields in the Anchor order" % len(af))
        w = {"i32": 4, "u128": 16, "u64": 8, "bool": 1, "Pubkey": 32, "u8": 1, "u16": 2, "u32": 4, "i64": 8}
        sizes[name] = 8 + sum(w.get(t, 64) for _, t in pf)
    cap = facts.const_value("pinocchio::events::SERIALIZED_EVENT_MAX_SIZE")
    run.check(rule, "buffer-fits", cap is not None and sizes and max(sizes.values()) <= cap, "the largest serialised event (%s bytes) does not fit SERIALIZED_EVENT_MAX_SIZE = %s" % (max(sizes.values()) if sizes else None, cap),
              detail="max %s <= %s" % (max(sizes.values()) if sizes else None, cap))
    # EV2
    d = facts.need_fn("pinocchio::events::Event::<'_>::to_anchor_discriminator")
    run.touch(d)
    arms = enum_arms(d, facts, lambda t: is_param(t, "self"))
    if arms is None:
        run.missing(rule, "discriminators", "to_anchor_discriminator does not match on self", loc=d.loc())
    else:
        sw, amap = arms
        for v in ev["variants"]:
            name = v["name"]
            tgt = amap.get(name)
            got = set()
            if tgt is not None:
                pva = arm_prov(d, sw, tgt)
                for bi, bb in enumerate(d.blocks):
                    if bb["t"]["k"] == "ret" and pva.flow.state_in[bi] is not None:
                        for l in leaves(pva.local(0, bi, len(bb["s"]))):
                            for x in subterms(l):
                                if x[0] == "const" and x[2] and "DISCRIMINATOR" in x[2]:
                                    m = re.search(r"<([^>]+)>", x[2])
                                    got.add(m.group(1).split(" as ")[0] if m else x[2])
            run.check(rule, "discriminator:" + name, got == {"events::" + name}, "Event::%s is tagged with the discriminator of %s" % (name, sorted(got)), loc=d.loc(),
                      detail="events::%s::DISCRIMINATOR" % name)
    # EV3
    e = facts.need_fn("pinocchio::events::Event::<'_>::emit")
    run.touch(e)
    pv = prov_of(e)
    ext = calls_to(e, lambda p: p.endswith("try_extend_from_slice"))
    ser = calls_to(e, lambda p: p.endswith("::serialize") and "Event" in p or p.endswith("BorshSerialize>::serialize") or p.endswith("BorshSerialize::serialize"))
    log = calls_to(e, ends("pino_sol_log_data"))
    ok = len(ext) == 1 and len(ser) == 1 and len(log) == 1
    why = "expected one try_extend_from_slice, one serialize and one log call (found %d / %d / %d)" % (len(ext), len(ser), len(log))
    if ok:
        pre = strip(ext[0][2][1])
        ok7 = mentions(pre, lambda x: x[0] == "agg" and x[2] == "RangeTo" and const_val(dict(x[3]).get("end")) == 7) and mentions(pre, lambda x: x[0] == "call" and x[1].endswith("to_anchor_discriminator"))
        ok_self = is_param(ser[0][2][0], "self")
        # the store buf[7] := discriminator[7] after serialize and before the log
        st7 = None
        for bi, bb in enumerate(e.blocks):
            for si, st in enumerate(bb["s"]):
                if st["k"] == "=" and st["p"].get("p") and not bb["c"]:
                    v = pv._rvalue(st["rv"], bi, si, 0)
                    if mentions(v, lambda x: x[0] == "call" and x[1].endswith("to_anchor_discriminator")) and \
                            mentions(v, lambda x: (x[0] == "index" and const_val(x[2]) == 7) or (x[0] == "call" and x[1].rsplit("::", 1)[-1] == "index" and len(x[2]) == 2 and const_val(x[2][1]) == 7)):
                        st7 = bi
        ok_over = st7 is not None and cfg.dominates(e, ser[0][0], st7) and cfg.dominates(e, st7, log[0][0]) and cfg.dominates(e, ext[0][0], ser[0][0])
        ok = ok7 and ok_self and ok_over and bool(cfg.result_checked(e, ser[0][0])) and bool(cfg.result_checked(e, ext[0][0]))
        why = "prefix of 7 discriminator bytes: %s; serialises self: %s; byte 7 overwritten after serialising and before logging: %s" % (ok7, ok_self, ok_over)
    run.check(rule, "emit-shape", ok, "Event::emit: " + why, loc=e.loc(), detail="disc[..7] ++ borsh(self); buf[7] := disc[7]; log")
    # EV4
    n = 0
    for fn in facts.fn_list:
        if fn.kind != "fn" or not fn.path.startswith("pinocchio::instructions::") or fn.expn:
            continue
        pvf = prov_of(fn)
        for bi, bb in enumerate(fn.blocks):
            if bb["c"]:
                continue
            for si, st in enumerate(bb["s"]):
                agg = st.get("rv", {}).get("agg") if st["k"] == "=" else None
                if not agg or agg.get("k") != "adt" or agg.get("adt") != EV:
                    continue
                n += 1
                t = pvf._rvalue(st["rv"], bi, si, 0)
                f = {k: pino.canon(fn, v) for k, v in t[3]}
                probs = []
                for name, val in f.items():
                    names = set()
                    for x in subterms(val):
                        nm = None
                        if x[0] in ("param", "var"):
                            nm = x[1]
                        elif x[0] == "field":
                            nm = x[2]
                        elif x[0] == "slot":
                            nm = x[1] if len(x) > 1 and isinstance(x[1], str) else None
                        if nm:
                            names.add(nm)
                    sides = {m.group(1) for nmx in names for m in [re.search(r"(?:^|_)(a|b)(?:_|$)", nmx)] if m}
                    want = "a" if re.search(r"(?:^|_)token_a(?:_|$)", name) else "b" if re.search(r"(?:^|_)token_b(?:_|$)", name) else None
                    # a component of the token-delta pair decides the side on its own (the pair itself depends on both maxima)
                    comp = [x[2] for x in subterms(val) if x[0] == "field" and x[2] in ("0", "1") and strip(x[1])[0] in ("call", "q") and
                            mentions(x[1], lambda y: y[0] == "call" and y[1].endswith(("pino_calculate_liquidity_token_deltas", "calculate_token_delta")))]
                    if want and comp:
                        sides = {"a" if c == "0" else "b" for c in comp}
                    if want and sides and sides != {want}:
                        probs.append("%s is fed from side %s (%s)" % (name, sorted(sides), sh(val, 50)))
                    if want and not sides and not (const_val(val) == 0):
                        # unsided source: must be the .0 / .1 of a token-delta pair
                        idx = [x[2] for x in subterms(val) if x[0] == "field" and x[2] in ("0", "1")]
                        if idx and set(idx) != {"0" if want == "a" else "1"}:
                            probs.append("%s is fed from component %s (%s)" % (name, idx, sh(val, 50)))
                    if name in ("whirlpool", "position"):
                        src = pino.cshow(val)
                        if not re.search(r"(?<![a-z_])%s(_account)?(_info)?(?![a-z_])" % name, src):
                            probs.append("%s is %s" % (name, sh(val, 40)))
                    if name.endswith("transfer_fee") and not (const_val(val) == 0 or "transfer_fee" in names or
                                                              mentions(val, lambda y: y[0] == "call" and y[1].endswith("calculate_token_transfer_info"))):
                        probs.append("%s is not a .transfer_fee (%s)" % (name, sh(val, 40)))
                run.check(rule, "emission:%s:%s" % (fn.path.split("::")[2], agg["v"]), not probs, "%s emits Event::%s with %s" % (fn.path, agg["v"], "; ".join(probs)), loc=fn.loc(st.get("l")),
                          detail="%d fields side-consistent" % len(f))
    run.floor(rule, "event emission sites", n, 6)
