"""C04 Only the designated authority can move a position's funds or change settings.

Decided structurally (trusted base: Anchor constraint semantics, SPL token account
fields): every privileged mutator reachable at handler level is bound to a Signer
whose address is read from the authority field recorded on an account linked to
the mutated account; position / bundle effects are dominated by the authority
helper on a token account constrained to the position; the authority helpers
contain the owner / delegate / delegated-amount atoms; Pinocchio slot labelling
equals the Anchor struct; the Pinocchio token view has SPL's layout.
Also decided: the Pinocchio token-account loader checks the owner against SPL's two program ids on every
success path;
Also decided: the multisig / length / initialised tests of that loader lie on every success path; the permissionless migration only reaches
reward_infos[1] and [2] through literal indices; the delegated fee authority is confined to adaptive-fee pools (constraint, its test and the
seed's little-endian encoding).
Also decided: is_admin_key is membership in the build's ADMINS table and nothing else.
Not decided: run-time facts about which keys hold which tokens."""
import re
from analysis import cfg, atoms as A, accounts as ACC, program, pino, writes
from analysis.ir import callee_path, AnchorMissing
from analysis.prov import prov_of, show, strip, leaves, subterms, field_chain
from analysis.match import chain, sh, is_param, is_call, is_field, mentions, const_val, fail_conditions

FEATURE_SENSITIVE = True

W = "state::whirlpool::Whirlpool"
C = "state::config::WhirlpoolsConfig"
T = "state::fee_tier::FeeTier"
AT = "state::adaptive_fee_tier::AdaptiveFeeTier"
X = "state::config_extension::WhirlpoolsConfigExtension"
B = "state::token_badge::TokenBadge"
O = "state::oracle::Oracle"
P = "state::position::Position"
PB = "state::position_bundle::PositionBundle"
LC = "state::lock_config::LockConfig"

ADDR = "address"
# method -> requirement. ("address", [(holder type, authority expression suffix)...]) | ("admin",) | ("position",) |
# ("bundle",) | ("permissionless", reason) | ("init_pool_authority",)
MUTATORS = {
    W + "::update_fee_rate": (ADDR, [(C, "fee_authority"), (AT, "delegated_fee_authority")]),
    W + "::update_protocol_fee_rate": (ADDR, [(C, "fee_authority")]),
    W + "::reset_protocol_fees_owed": (ADDR, [(C, "collect_protocol_fees_authority")]),
    W + "::update_reward_authority": (ADDR, [(W, "reward_authority()"), (C, "reward_emissions_super_authority")]),
    W + "::update_emissions": (ADDR, [(W, "reward_authority()")]),
    W + "::initialize_reward": (ADDR, [(W, "reward_authority()")]),
    W + "::initialize": ("create", "creates a new pool account (init) from tier/config parameters"),
    W + "::update_rewards": ("permissionless", "accrual only: brings reward growth up to date"),
    T + "::initialize": (ADDR, [(C, "fee_authority")]),
    T + "::update_default_fee_rate": (ADDR, [(C, "fee_authority")]),
    AT + "::initialize": (ADDR, [(C, "fee_authority")]),
    AT + "::update_adaptive_fee_constants": (ADDR, [(C, "fee_authority")]),
    AT + "::update_default_base_fee_rate": (ADDR, [(C, "fee_authority")]),
    AT + "::update_delegated_fee_authority": (ADDR, [(C, "fee_authority")]),
    AT + "::update_initialize_pool_authority": (ADDR, [(C, "fee_authority")]),
    C + "::initialize": ("admin",),
    C + "::update_feature_flags": ("admin",),
    C + "::update_fee_authority": (ADDR, [(C, "fee_authority")]),
    C + "::update_default_protocol_fee_rate": (ADDR, [(C, "fee_authority")]),
    C + "::update_collect_protocol_fees_authority": (ADDR, [(C, "collect_protocol_fees_authority")]),
    C + "::update_reward_emissions_super_authority": (ADDR, [(C, "reward_emissions_super_authority")]),
    X + "::initialize": (ADDR, [(C, "fee_authority")]),
    X + "::update_config_extension_authority": (ADDR, [(X, "config_extension_authority")]),
    X + "::update_token_badge_authority": (ADDR, [(X, "config_extension_authority")]),
    B + "::initialize": (ADDR, [(X, "token_badge_authority")]),
    B + "::update_attribute": (ADDR, [(X, "token_badge_authority")]),
    O + "::initialize": ("init_pool_authority",),
    O + "::initialize_adaptive_fee_constants": (ADDR, [(C, "fee_authority")]),
    O + "::reset_adaptive_fee_variables": (ADDR, [(C, "fee_authority")]),
    P + "::open_position": ("create", "initialises a freshly created position account"),
    P + "::reset_fees_owed": ("position",),
    P + "::update_reward_owed": ("position",),
    P + "::reset_position_range": ("position",),
    P + "::update": ("permissionless", "fee/reward accrual with zero liquidity delta (update_fees_and_rewards)"),
    LC + "::initialize": ("position",),
    LC + "::update_position_owner": ("position",),
    PB + "::initialize": ("create", "initialises a freshly created bundle"),
    PB + "::open_bundled_position": ("bundle",),
    PB + "::close_bundled_position": ("bundle",),
    "state::dynamic_tick_array::DynamicTickArrayLoader::initialize": ("permissionless", "initialises a tick-array PDA of the pool whose discriminator is still unset (manual init)"),
    "state::dynamic_tick_array::DynamicTickArrayLoader::load_mut": ("permissionless", "view constructor"),
    "state::fixed_tick_array::TickArray::initialize": ("create", "initialises a freshly created tick array"),
}
# `close = receiver` on an account of this type requires:
CLOSE_REQ = {P: ("position-or-bundle",), PB: ("bundle-owner",), B: (ADDR, [(X, "token_badge_authority")])}

# functions whose reachability from an entry makes it position-privileged
POSITION_EFFECT_FNS = [
    "manager::liquidity_manager::sync_modify_liquidity_values",
    "pinocchio::ported::manager_liquidity_manager::pino_sync_modify_liquidity_values",
    "util::token::burn_and_close_user_position_token",
    "util::token_2022::burn_and_close_user_position_token_2022",
    "util::token_2022::freeze_user_position_token_2022",
    "util::token_2022::unfreeze_user_position_token_2022",
    "util::token_2022::transfer_user_position_token_2022",
]


def _acc_ref(term):
    """'X' if the term is rooted at ctx.accounts.X (possibly through load/load_mut/?), else None."""
    for s in subterms(term):
        c = field_chain(s)
        if c and len(c) >= 3 and c[0] == "ctx" and c[1] == "accounts":
            return c[2]
    return None


def _type_last(path):
    return path.rsplit("::", 1)[-1]


def _signers_with_address(st):
    out = []
    for f in st.fields:
        if f.kind != "Signer":
            continue
        for e in f.values("address"):
            out.append((f, e))
    return out


def _address_binding_ok(st, subject, reqs):
    """Is there a Signer field with address = <holder>.<attr> where holder has the required
    type and is the subject or linked to it? Returns (ok, description)."""
    tried = []
    for f, e in _signers_with_address(st):
        m = re.match(r"^([A-Za-z_0-9]+)\.([A-Za-z_0-9]+(?:\(\))?)$", e)
        if not m:
            tried.append("%s[address=%s: not a plain <account>.<field>]" % (f.name, e))
            continue
        holder, attr = m.group(1), m.group(2)
        hf = st.field(holder)
        if hf is None:
            tried.append("%s[address=%s: unknown account]" % (f.name, e))
            continue
        for (hty, hattr) in reqs:
            if attr != hattr:
                continue
            if hf.kind not in ("Account", "AccountLoader") or hf.inner != _type_last(hty):
                tried.append("%s[address=%s: holder is %s, not Account<%s>]" % (f.name, e, hf.ty, _type_last(hty)))
                continue
            if holder != subject and not st.identified(holder, subject):
                tried.append("%s[address=%s: `%s` is not tied to the mutated account `%s` by an identifying constraint (has_one / key equality / seeds / the tier's (config, index) pair)]" % (f.name, e, holder, subject))
                continue
            return True, "%s: Signer, address = %s, %s %s `%s`" % (f.name, e, holder, "is" if holder == subject else "linked to", subject)
    return False, "; ".join(tried) or "no Signer field with an address constraint"


from analysis.accounts import canon_eq as CE  # noqa: E402


def _token_account_constraints(tf):
    return set(tf.values("constraint"))


def _position_binding(facts, st, h, effect_blocks, subject_position=None):
    """Anchor: handler must-pass verify_position_authority(_interface)(ctx.accounts.TA, ctx.accounts.S)."""
    pv = prov_of(h)
    msgs = []
    sites = []
    for bi, t in h.calls():
        p = callee_path(t) or ""
        if p not in ("util::shared::verify_position_authority", "util::shared::verify_position_authority_interface", "util::shared::validate_owner"):
            continue
        sites.append((bi, p, [pv.operand(a, bi, len(h.blocks[bi]["s"])) for a in t["a"]], None))
    ip = inplace_owner_check(h)
    if ip is not None:
        sites.append((ip[0], "util::shared::validate_owner", [ip[1], ip[2]], ip[3]))
    for (bi, p, args, inplace) in sites:
        ta, s = _acc_ref(args[0]), _acc_ref(args[1])
        if p.endswith("validate_owner") and not (is_field(args[0], "owner") and ta):
            msgs.append("validate_owner is not applied to <token account>.owner: %s" % sh(args[0], 60))
            continue
        tf, sf = st.field(ta) if ta else None, st.field(s) if s else None
        if tf is None or sf is None:
            msgs.append("arguments are not accounts of the struct: %s, %s" % (sh(args[0], 60), sh(args[1], 60)))
            continue
        if sf.kind != "Signer":
            msgs.append("authority account `%s` is %s, not Signer" % (s, sf.ty))
            continue
        cons = _token_account_constraints(tf)
        pos_fields = [f.name for f in st.fields if f.inner == "Position"]
        okp = None
        for pf in pos_fields:
            if CE("%s.mint==%s.position_mint" % (ta, pf)) in cons and CE("%s.amount==1" % ta) in cons:
                okp = pf
        if okp is None:
            msgs.append("token account `%s` is not constrained to mint == <position>.position_mint && amount == 1 (has %s)" % (ta, sorted(cons)))
            continue
        if subject_position and okp != subject_position and not st.linked(okp, subject_position):
            msgs.append("checked position `%s` is not the mutated `%s`" % (okp, subject_position))
            continue
        mp, why = cfg.must_pass_call(h, bi) if inplace is None else (inplace, "the owner / signer tests written in place can be bypassed")
        if not mp:
            msgs.append("verify_position_authority: " + why)
            continue
        nd = [e for e in effect_blocks if not cfg.dominates(h, bi, e)]
        if nd:
            msgs.append("verify_position_authority does not dominate the effect at line %s" % h.blocks[nd[0]]["t"].get("l"))
            continue
        return True, "%s(ctx.accounts.%s [mint == %s.position_mint, amount == 1], Signer %s)? dominates %d effect sites" % (
            p.rsplit("::", 1)[-1], ta, okp, s, len(effect_blocks))
    return False, "; ".join(msgs) or "no call to verify_position_authority(_interface)"


def inplace_owner_check(h):
    """validate_owner written in place: `expected != info.key || !info.is_signer => MissingOrInvalidDelegate`:
    (block of the signer test, expected-owner term, account term, both tests on every success path) or None."""
    key_at = sig_at = None
    for at in A.atoms(h):
        if "MissingOrInvalidDelegate" not in (at.true_codes | at.false_codes) and not at.true_fail and not at.false_fail:
            continue
        c = at.cond()
        if c and c[0] in ("Ne", "Eq") and "MissingOrInvalidDelegate" in (at.true_codes | at.false_codes | _reach_codes(h, at)):
            for (x, y) in ((c[1], c[2]), (c[2], c[1])):
                if is_field(strip(y), "key") and is_field(strip(x), "owner"):
                    key_at = (at, x, strip(y)[1])
        if c is None and is_field(strip(at.term), "is_signer") and at.false_fail:
            sig_at = (at, strip(strip(at.term))[1])
    if key_at and sig_at and strip(key_at[2]) == strip(sig_at[1]):
        both = not cfg.success_reach(h, 0, cut_blocks=[key_at[0].block]) and \
            not cfg.success_reach(h, 0, cut_edges={(sig_at[0].block, tg) for tg in sig_at[0].true_targets} | {(key_at[0].block, tg) for tg in (key_at[0].false_targets if key_at[0].cond()[0] == "Ne" else key_at[0].true_targets)})
        return (sig_at[0].block, key_at[1], key_at[2], both)
    return None


def _reach_codes(fn, at):
    """Error codes of the failing returns an atom's sides lead to (a short-circuit `||` fails one block further on)."""
    out = set()
    for tg in at.true_targets + at.false_targets:
        if cfg.fail_only(fn, tg):
            out |= cfg.block_error_codes(fn, tg) or set()
            for b in cfg.reach(fn, tg):
                out |= cfg.block_error_codes(fn, b) or set()
    return out


def _bundle_binding(facts, st, h, effect_blocks):
    pv = prov_of(h)
    msgs = []
    for bi, t in h.calls():
        # the bundle helper "uses the same logic": it forwards to verify_position_authority (R2 forwards@); calling that directly is the same
        if (callee_path(t) or "") not in ("util::shared::verify_position_bundle_authority", "util::shared::verify_position_authority"):
            continue
        args = [pv.operand(a, bi, len(h.blocks[bi]["s"])) for a in t["a"]]
        ta, s = _acc_ref(args[0]), _acc_ref(args[1])
        tf, sf = st.field(ta) if ta else None, st.field(s) if s else None
        if tf is None or sf is None or sf.kind != "Signer":
            msgs.append("arguments are not (token account, Signer)")
            continue
        cons = _token_account_constraints(tf)
        pbf = [f.name for f in st.fields if f.inner == "PositionBundle"]
        if not any(CE("%s.mint==%s.position_bundle_mint" % (ta, b)) in cons for b in pbf) or CE("%s.amount==1" % ta) not in cons:
            msgs.append("bundle token account `%s` lacks mint == bundle.position_bundle_mint && amount == 1" % ta)
            continue
        mp, why = cfg.must_pass_call(h, bi)
        if not mp:
            msgs.append(why)
            continue
        if any(not cfg.dominates(h, bi, e) for e in effect_blocks):
            msgs.append("does not dominate the bundle effect")
            continue
        return True, "%s(ctx.accounts.%s, Signer %s)? dominates the effect" % (callee_path(t).rsplit("::", 1)[-1], ta, s)
    return False, "; ".join(msgs) or "no call to verify_position_bundle_authority"


def _admin_binding(st):
    for f in st.fields:
        if f.kind == "Signer":
            for e in f.values("constraint"):
                if e in ("is_admin_key(%s.key)" % f.name, "is_admin_key(%s.key())" % f.name, "is_admin_key(&%s.key())" % f.name):
                    return True, "%s: Signer, constraint = %s" % (f.name, e)
    return False, "no Signer with constraint is_admin_key(<that signer>.key)"


def R1_effect_requires_authority(run):
    run.title("R1", "every state mutator called by an Anchor handler (and every `close =`) is classified, and its required authority "
                    "binding is present: Signer + address read from the authority field of an account linked to the mutated one, "
                    "or the position/bundle authority helper dominating the effect, or the admin-key constraint")
    facts = run.facts
    structs = ACC.load(facts)
    n_auth = 0
    n_entries = 0
    for e in program.entries(facts):
        if not e.handler:
            continue
        n_entries += 1
        h = facts.need_fn(e.handler)
        run.touch(h)
        st = structs.get(e.ctx_struct)
        if st is None:
            run.missing("R1", "struct@" + e.name, "accounts struct %s not found" % e.ctx_struct)
            continue
        pv = prov_of(h)
        effects = []  # (method, subject account field, block)
        for bi, t in h.calls():
            p = callee_path(t) or ""
            g = facts.fn(p)
            if g is None or not g.sig or not g.sig["in"] or not g.sig["in"][0].startswith("&mut ") or not p.startswith("state::"):
                continue
            if "<impl" in p:
                continue  # bitflags helpers on local values
            recv = pv.operand(t["a"][0], bi, len(h.blocks[bi]["s"]))
            effects.append((p, _acc_ref(recv), bi, t["l"]))
        # a setter spelled out in the handler (the same stores with the same constants) is that setter's effect
        for (mpath, mb, recv, _args, ws_) in writes.recognise_mutators(facts, h):
            if mpath.startswith("state::") and "<impl" not in mpath:
                effects.append((mpath, _acc_ref(recv), mb, ws_[-1]["line"]))
        # ... also the one nested-field setter: position.reward_infos[i].amount_owed := v is Position::update_reward_owed
        pvh_ = prov_of(h)
        for w in writes.field_stores(facts):
            if w["fn"] is h and w["kind"] == "assign" and w["last"] and w["field"] == "amount_owed" and w["adt"].endswith("PositionRewardInfo") and w["stmt"] < len(h.blocks[w["block"]]["s"]):
                st_ = h.blocks[w["block"]]["s"][w["stmt"]]
                if any(isinstance(e_, dict) and e_.get("f") == "reward_infos" for e_ in st_["p"]["p"]):
                    effects.append((P + "::update_reward_owed", _acc_ref(pvh_.local(st_["p"]["l"], w["block"], w["stmt"])), w["block"], w["line"]))
        for f in st.fields:
            for cexpr in f.values("close"):
                ty = {"Position": P, "PositionBundle": PB, "TokenBadge": B}.get(f.inner)
                effects.append(("close:" + (ty or f.ty), f.name, None, f.line))
        # position-privileged effect functions reached through the call graph
        reach = facts.reachable_from([h.path])
        pos_eff_blocks = []
        for bi, t in h.calls():
            p = callee_path(t) or ""
            if p in POSITION_EFFECT_FNS or (facts.fn(p) is not None and any(x in facts.reachable_from([p]) for x in POSITION_EFFECT_FNS)):
                pos_eff_blocks.append(bi)
        if pos_eff_blocks:
            effects.append(("position-effect", None, pos_eff_blocks[0], h.blocks[pos_eff_blocks[0]]["t"]["l"]))
        for (method, subject, bi, line) in effects:
            inst = "%s:%s" % (e.name, method.replace("state::", "").replace("::", "."))
            loc = h.loc(line) if bi is not None else st.loc(subject)
            if method.startswith("close:"):
                req = CLOSE_REQ.get(method[6:])
                if req is None:
                    run.bad("R1", inst, "`close =` on an account type without a classified close authority: %s" % method[6:], loc=loc)
                    continue
            elif method == "position-effect":
                req = ("position",)
            else:
                req = MUTATORS.get(method)
                if req is None:
                    run.bad("R1", inst, "handler %s calls unclassified state mutator %s: no authority requirement is known for it" % (h.path, method), loc=loc)
                    continue
            kind = req[0]
            eff_blocks = [b for (m2, s2, b, _) in effects if b is not None and m2 not in ("position-effect",) and MUTATORS.get(m2, ("",))[0] not in ("permissionless", "create")]
            if kind == "create":
                # creation must really be creation: the subject account is `init`/zero in this struct
                sf = st.field(subject) if subject else None
                ok = sf is not None and (sf.has_flag("init") or sf.has_flag("zero"))
                run.check("R1", inst, ok, "%s is classified as creation-only but account `%s` is not `init`/`zero` in %s" % (method, subject, st.name), loc=loc,
                          detail="creation: %s; `%s` is init" % (req[1], subject))
                continue
            if kind == "permissionless":
                run.ok("R1", inst, detail="permissionless by design: " + req[1])
                continue
            n_auth += 1
            if kind == ADDR:
                if subject is None:
                    run.bad("R1", inst, "cannot resolve the mutated account of %s to a field of %s" % (method, st.name), loc=loc)
                    continue
                ok, why = _address_binding_ok(st, subject, req[1])
                run.check("R1", inst, ok, "%s on `%s` in %s lacks its authority binding (%s): %s" % (
                    method, subject, e.name, " or ".join("%s.%s" % (_type_last(a), b) for a, b in req[1]), why), loc=loc, detail=why)
            elif kind == "admin":
                ok, why = _admin_binding(st)
                run.check("R1", inst, ok, "%s in %s is not restricted to the admin key: %s" % (method, e.name, why), loc=loc, detail=why)
            elif kind == "init_pool_authority":
                ok = False
                why = "no Signer constrained by <tier>.is_valid_initialize_pool_authority(<signer>.key())"
                for f in st.fields:
                    if f.kind == "Signer":
                        for ex in f.values("constraint"):
                            m = re.match(r"^(\w+)\.is_valid_initialize_pool_authority\((\w+)\.key\(\)\)$", ex)
                            if m and m.group(2) == f.name and st.field(m.group(1)) is not None and st.field(m.group(1)).inner == "AdaptiveFeeTier":
                                ok = True
                                why = "%s: Signer, constraint = %s" % (f.name, ex)
                run.check("R1", inst, ok, "adaptive-fee pool creation is not gated by the tier's initialize-pool authority: " + why, loc=loc, detail=why)
            elif kind == "position" and method == "position-effect" and not any(f.inner == "Position" for f in st.fields) \
                    and any(f.inner == "PositionBundle" for f in st.fields):
                run.ok("R1", inst, detail="token burn of the bundle token: covered by the bundle-owner close requirement of this entry")
            elif kind == "position":
                blocks = [b for b in ([bi] if bi is not None else []) ] + pos_eff_blocks
                subj = subject if (subject and st.field(subject) is not None and st.field(subject).inner == "Position") else None
                ok, why = _position_binding(facts, st, h, blocks, subj)
                run.check("R1", inst, ok, "position effect %s in %s is not dominated by the position-authority check: %s" % (method, e.name, why), loc=loc, detail=why)
            elif kind == "bundle":
                ok, why = _bundle_binding(facts, st, h, [bi] if bi is not None else [])
                run.check("R1", inst, ok, "bundle effect %s in %s is not dominated by the bundle-authority check: %s" % (method, e.name, why), loc=loc, detail=why)
            elif kind == "position-or-bundle":
                all_blocks = [b for (_, _, b, _) in effects if b is not None]
                ok, why = _position_binding(facts, st, h, pos_eff_blocks, subject)
                if not ok:
                    ok2, why2 = _bundle_binding(facts, st, h, [b for (m2, _, b, _) in effects if b is not None and m2.startswith(PB)])
                    ok, why = ok2, (why2 if ok2 else why + " / " + why2)
                run.check("R1", inst, ok, "closing position account `%s` in %s is not behind the position/bundle authority: %s" % (subject, e.name, why), loc=loc, detail=why)
            elif kind == "bundle-owner":
                ok = False
                why = "no token account constrained to owner == <Signer>.key(), mint == bundle mint, amount == 1"
                for f in st.fields:
                    cons = _token_account_constraints(f)
                    for s in st.fields:
                        if s.kind == "Signer" and CE("%s.owner==%s.key()" % (f.name, s.name)) in cons and CE("%s.amount==1" % f.name) in cons \
                                and CE("%s.mint==%s.position_bundle_mint" % (f.name, subject)) in cons:
                            ok = True
                            why = "%s.owner == Signer %s, mint == %s.position_bundle_mint, amount == 1" % (f.name, s.name, subject)
                run.check("R1", inst, ok, "bundle deletion is not restricted to the bundle token holder: " + why, loc=loc, detail=why)
    run.floor("R1", "authority-bound effects", n_auth, 50)
    run.floor("R1", "anchor entries analysed", n_entries, 59)


def R1e_mutated_accounts_are_mut(run):
    run.title("R1e", "every account a handler mutates through a state setter is declared `mut` (or created / closed) in its accounts struct: Anchor writes back "
                     "only those, so a missing `mut` turns the handler's update into a no-op that still succeeds")
    facts = run.facts
    structs = ACC.load(facts)
    n = 0
    for e in program.entries(facts):
        if not e.handler:
            continue
        h = facts.fn(e.handler)
        st = structs.get(e.ctx_struct)
        if h is None or st is None:
            continue
        pv = prov_of(h)
        subjects = {}
        # setters reached from the handler through helpers that receive the account (e.g. update_and_swap_whirlpool(&mut ctx.accounts.whirlpool, ..))
        for bi, t in h.calls():
            p = callee_path(t) or ""
            g = facts.fn(p)
            if g is None or not g.sig or not g.sig["in"] or h.blocks[bi]["c"]:
                continue
            for i, ty in enumerate(g.sig["in"]):
                if not ty.startswith("&mut ") or i >= len(t["a"]):
                    continue
                if not any(x in ty for x in ("state::", "Account<", "AccountLoader<")):
                    continue
                a_ = pv.operand(t["a"][i], bi, len(h.blocks[bi]["s"]))
                name = _acc_ref(a_)
                if name:
                    subjects.setdefault(name, p.rsplit("::", 1)[-1])
        for (mpath, mb, recv, _args, ws_) in writes.recognise_mutators(facts, h):
            name = _acc_ref(recv)
            if name:
                subjects.setdefault(name, mpath.rsplit("::", 1)[-1] + " (written in place)")
        for name, via in sorted(subjects.items()):
            f = st.field(name)
            if f is None or f.kind not in ("Account", "AccountLoader", "InterfaceAccount"):
                continue
            n += 1
            run.check("R1e", "mut:%s.%s" % (st.name, name), f.is_mut, "%s.%s is mutated by the handler (%s) but is not declared `mut`: the change is not written back" % (st.name, name, via),
                      loc=st.loc(name), detail="mutated through %s; declared mut" % via)
    run.floor("R1e", "mutated accounts", n, 40)


def R1b_no_unlisted_writers(run):
    run.title("R1b", "authority and rate fields are written only through the classified mutators (so R1 sees every write), and no handler "
                     "stores to state-account fields directly except the one confirmed migration")
    facts = run.facts
    tracked = [W, C, T, AT, X, B, O, P, PB, LC, "state::whirlpool::WhirlpoolRewardInfo"]
    offenders = {}
    n = 0
    for w in writes.field_stores(facts):
        if w["adt"] not in tracked:
            continue
        n += 1
        fn = w["fn"]
        if fn.self_ty and any(fn.self_ty == t or fn.self_ty.startswith(t) for t in tracked) and not fn.trait:
            continue  # inherent method of a state type: classified through MUTATORS when called from a handler
        if fn.trait:  # derives (Clone, Default, BorshDeserialize ...)
            continue
        offenders.setdefault(fn.path, w)
    # a handler whose direct stores are, group by group, exactly one classified setter written in place is held to that
    # setter's authority rule by R1 (it sees the recognised setter as an effect)
    for path in list(offenders):
        fn = facts.fn(path)
        rec = writes.recognise_mutators(facts, fn) if fn is not None else []
        covered = {(w_["block"], w_["stmt"]) for (_m, _b, _r, _a, ws_) in rec for w_ in ws_}
        mine = [w for w in writes.field_stores(facts) if w["fn"] is fn and w["adt"] in tracked and w["kind"] == "assign"]
        # position.reward_infos[i].amount_owed := v is Position::update_reward_owed written in place (R1 holds it to the position authority)
        owed = [w for w in mine if fn is not None and w["stmt"] < len(fn.blocks[w["block"]]["s"]) and
                [e_.get("f") for e_ in fn.blocks[w["block"]]["s"][w["stmt"]]["p"]["p"] if isinstance(e_, dict) and "f" in e_] == ["reward_infos", "amount_owed"]]
        if owed and all(w in owed or (w["block"], w["stmt"]) in covered for w in mine):
            run.ok("R1b", "direct-store@" + path, detail="writes update_reward_owed in place (held to the position authority by R1)")
            del offenders[path]
            continue
        if rec and all((w["block"], w["stmt"]) in covered for w in mine) and all(m in MUTATORS or m in (W + "::update_rewards_and_liquidity",) for (m, _b, _r, _a, _w) in rec):
            run.ok("R1b", "direct-store@" + path, detail="writes %s in place (held to that setter's authority rule by R1)" % ", ".join(sorted({m.rsplit("::", 1)[-1] for (m, _b, _r, _a, _w) in rec})))
            del offenders[path]
    allowed = {
        "instructions::migrate_repurpose_reward_authority_space::handler":
            "permissionless one-shot migration: can only zero two extension segments of a not-yet-migrated legacy pool (checked by R1c)",
        "manager::whirlpool_manager::next_whirlpool_reward_infos": "works on a local copy returned to the caller (not account storage)",
        "manager::position_manager::next_position_modify_liquidity_update": "builds a local PositionUpdate",
        "pinocchio::ported::manager_liquidity_manager::pino_next_position_modify_liquidity_update": "builds a local PositionUpdate",
    }
    for path, w in sorted(offenders.items()):
        if path in allowed:
            run.ok("R1b", "direct-store@" + path, detail="exception: " + allowed[path])
        else:
            run.bad("R1b", "direct-store@" + path, "%s stores directly to %s.%s, bypassing the classified mutators (no authority rule covers it)" % (path, w["adt"], w["field"]),
                    loc=w["fn"].loc(w["line"]))
    run.floor("R1b", "tracked field stores", n, 100)
    # all inherent &mut methods of tracked types that are called from handlers are classified -> done in R1.
    # additionally every inherent writer method must be in MUTATORS or only reachable from classified ones
    writer_methods = set()
    for w in writes.field_stores(facts):
        if w["adt"] in tracked and w["fn"].self_ty in tracked and not w["fn"].trait:
            writer_methods.add(w["fn"].path)
    internal_ok = {
        W + "::update_rewards_and_liquidity": "liquidity managers only (position-authority handlers)",
        W + "::update_after_swap": "swap handlers only",
        P + "::update": "liquidity managers / fee update",
        O + "::update_adaptive_fee_variables": "swap handlers only, through OracleAccessor (R1d)",
    }
    for m in sorted(writer_methods):
        if m in MUTATORS or m in internal_ok:
            run.ok("R1b", "classified@" + m, nontrivial=False)
            continue
        # fine if every caller is itself a classified mutator of the same type
        callers = {c.path for (c, _) in facts.callers().get(m, [])}
        if callers and all(c in MUTATORS or c in internal_ok for c in callers):
            run.ok("R1b", "classified@" + m, detail="only called from classified mutators: %s" % ", ".join(sorted(callers)))
        else:
            run.bad("R1b", "classified@" + m, "state writer method %s has no authority classification and is called from %s" % (m, sorted(callers)),
                    loc=facts.fn(m).loc())


def R1c_migration_exception(run):
    run.title("R1c", "the permissionless migration can only act on a not-yet-migrated pool and only writes the two reserved extension segments")
    facts = run.facts
    h = facts.need_fn("instructions::migrate_repurpose_reward_authority_space::handler")
    run.touch(h)
    ws = [w for w in writes.field_stores(facts) if w["fn"] is h and w["adt"] in (W, "state::whirlpool::WhirlpoolRewardInfo")]
    pv = prov_of(h)
    fields = {(w["adt"], w["field"]) for w in ws}
    ok = fields <= {(W, "reward_infos"), ("state::whirlpool::WhirlpoolRewardInfo", "extension")}
    run.check("R1c", "fields", ok and ws, "migration handler writes other pool fields: %s" % sorted(fields), loc=h.loc(), detail="writes only reward_infos[i].extension")
    idx_ok = True
    for w in ws:
        # every store / mutable borrow goes through whirlpool.reward_infos[<literal 1 or 2>]: a slot reached any other way
        # (an iterator over the array, a computed index, a reference taken earlier) is not known to spare slot 0
        blk = h.blocks[w["block"]]
        if w["kind"] == "mutref":
            rv = w["rv"]
            place = rv.get("ref") or rv.get("raw")
        elif w["stmt"] < len(blk["s"]):
            place = blk["s"][w["stmt"]]["p"]
        else:
            place = blk["t"].get("d")
        proj = (place or {}).get("p") or []
        at_ = [i for i, e in enumerate(proj) if isinstance(e, dict) and e.get("f") == "reward_infos" and e.get("a") == W]
        good = False
        if at_ and at_[0] + 1 < len(proj):
            e = proj[at_[0] + 1]
            if isinstance(e, dict) and ("ci" in e or "ix" in e):
                v = e["ci"] if "ci" in e else const_val(pv.local(e["ix"], w["block"], w["stmt"]))
                good = v in (1, 2)
        if not good:
            idx_ok = False
    run.check("R1c", "indices", idx_ok, "migration writes a reward_infos index other than 1 or 2 (index 0 holds the reward authority)", loc=h.loc(),
              detail="constant indices 1 and 2 only")
    # guarded by an early return / error when already migrated
    guarded = False
    for at in A.atoms(h):
        if all(A.guarded_by(h, at, w["block"]) for w in ws) or (at.true_fail != at.false_fail):
            guarded = guarded or (at.true_fail != at.false_fail and all(A.guarded_by(h, at, w["block"]) for w in ws))
    run.check("R1c", "one-shot", guarded, "migration stores are not guarded by an already-migrated check", loc=h.loc(), detail="stores dominated by a failing guard")


def R1d_delegated_authority_scope(run):
    run.title("R1d", "the delegated fee authority acts on adaptive-fee pools only: SetFeeRateByDelegatedFeeAuthority requires whirlpool.is_initialized_with_adaptive_fee_tier(), "
                     "which is fee_tier_index() != tick_spacing, with fee_tier_index() the little-endian reading of the seed that initialize stored with to_le_bytes")
    facts = run.facts
    st = ACC.by_name(facts, "SetFeeRateByDelegatedFeeAuthority")
    ok = False
    if st is not None:
        f = [x for x in st.fields if x.name == "whirlpool"]
        ok = bool(f) and any(ACC.norm_expr(v).replace(" ", "") == "whirlpool.is_initialized_with_adaptive_fee_tier()" for v in f[0].values("constraint"))
    run.check("R1d", "constraint@SetFeeRateByDelegatedFeeAuthority", ok, "SetFeeRateByDelegatedFeeAuthority.whirlpool lost `constraint = whirlpool.is_initialized_with_adaptive_fee_tier()`: "
              "a tier's delegate could set the fee rate of a FeeTier pool", detail="constraint = whirlpool.is_initialized_with_adaptive_fee_tier()")

    def ret(fn):
        pv = prov_of(fn)
        return [strip(pv.local(0, bi, len(bb["s"]))) for bi, bb in enumerate(fn.blocks) if bb["t"]["k"] == "ret"]

    def seed_le(t):
        """u16::from_le_bytes(self.fee_tier_index_seed), directly or through fee_tier_index()"""
        t = strip(t)
        if t[0] == "call" and t[1].endswith("Whirlpool::fee_tier_index") and len(t[2]) == 1 and is_param(strip(t[2][0]), "self"):
            return True
        return t[0] == "call" and t[1].endswith("::from_le_bytes") and len(t[2]) == 1 and is_field(strip(t[2][0]), "fee_tier_index_seed") and is_param(strip(strip(t[2][0])[1]), "self")
    fn = facts.need_fn(W + "::is_initialized_with_adaptive_fee_tier")
    run.touch(fn)
    r = ret(fn)
    ok = len(r) == 1 and r[0][0] == "bin" and r[0][1] == "Ne"
    if ok:
        a, b = strip(r[0][2]), strip(r[0][3])
        spacing = lambda x: is_field(x, "tick_spacing") and is_param(strip(x[1]), "self")
        ok = (seed_le(a) and spacing(b)) or (seed_le(b) and spacing(a))
    if not ok and len(r) == 1 and r[0][0] == "call" and r[0][1].rsplit("::", 1)[-1] == "ne" and len(r[0][2]) == 2:
        # the same test on the encoded side: seed != tick_spacing.to_le_bytes()
        for (a, b) in ((strip(r[0][2][0]), strip(r[0][2][1])), (strip(r[0][2][1]), strip(r[0][2][0]))):
            if is_field(a, "fee_tier_index_seed") and is_param(strip(a[1]), "self") and b[0] == "call" and b[1].endswith("::to_le_bytes") and len(b[2]) == 1 \
                    and is_field(strip(b[2][0]), "tick_spacing") and is_param(strip(strip(b[2][0])[1]), "self"):
                ok = True
    run.check("R1d", "adaptive-test", ok, "is_initialized_with_adaptive_fee_tier is %s; expected fee_tier_index() != tick_spacing (a FeeTier pool's index is its tick spacing)" % [sh(x, 80) for x in r],
              loc=fn.loc(), detail="u16::from_le_bytes(seed) != tick_spacing")
    g = facts.need_fn(W + "::fee_tier_index")
    run.touch(g)
    r = ret(g)
    run.check("R1d", "seed-decoding", len(r) == 1 and seed_le(r[0]) and r[0][1].endswith("::from_le_bytes"), "fee_tier_index() is %s; expected u16::from_le_bytes(self.fee_tier_index_seed)" % [sh(x, 80) for x in r],
              loc=g.loc(), detail="little-endian, as stored")
    ini = facts.need_fn(W + "::initialize")
    pv = prov_of(ini)
    ws = [w for w in writes.writers_of(facts, W, "fee_tier_index_seed") if w["kind"] == "assign"]
    ok = bool(ws) and all(w["fn"] is ini for w in ws)
    for w in ws:
        if w["fn"] is not ini:
            continue
        v = strip(pv._rvalue(w["rv"], w["block"], w["stmt"], 0)) if "callres" not in w["rv"] else strip(pv.local(w["rv"]["callres"]["d"]["l"], w["block"], w["stmt"] + 1))
        ok = ok and v[0] == "call" and v[1].endswith("::to_le_bytes") and len(v[2]) == 1 and is_param(strip(v[2][0]), "fee_tier_index")
    run.check("R1d", "seed-encoding", ok, "Whirlpool::initialize does not store fee_tier_index_seed = fee_tier_index.to_le_bytes() (or someone else writes the seed)", loc=ini.loc(),
              detail="to_le_bytes(fee_tier_index), written by initialize only")


def R2_authority_helpers(run):
    run.title("R2", "the three position-authority helpers fail unless (owner == key && is_signer), take the delegate path only when "
                    "delegate == Some(authority key), and then also require delegated_amount == 1")
    facts = run.facts
    for path, code_enum in (("util::shared::validate_owner", "MissingOrInvalidDelegate"),
                            ("pinocchio::ported::util_shared::pino_validate_owner", "MissingOrInvalidDelegate")):
        if facts.fn(path) is None:
            # the two-line helper was written into its callers: the same two tests are demanded there (below, `in place`)
            run.ok("R2", "owner-key@" + path, detail="helper written in place; decided in its callers")
            run.ok("R2", "is-signer@" + path, detail="helper written in place; decided in its callers")
            continue
        fn = facts.need_fn(path)
        run.touch(fn)
        ats = A.atoms(fn)
        key_ok = sig_ok = False
        for at in ats:
            s = show(at.term)
            c = at.cond()
            if c and c[0] in ("Ne", "Eq") and "expected_owner" in s and "owner_account_info" in s:
                failing_true = (at.true_fail and c[0] == "Ne") or (at.false_fail and c[0] == "Eq")
                # the Ne-true edge either fails directly or (short-circuit `||`) skips the signer test into failure
                key_ok = key_ok or failing_true
            if "is_signer" in s:
                # `!is_signer` true => fail ; i.e. is_signer false => fail
                if at.false_fail:
                    sig_ok = True
        run.check("R2", "owner-key@" + path, key_ok, "%s does not fail when expected_owner != account key" % path, loc=fn.loc(), detail="expected != key => MissingOrInvalidDelegate")
        run.check("R2", "is-signer@" + path, sig_ok, "%s does not fail when the authority account is not a signer" % path, loc=fn.loc(), detail="!is_signer => MissingOrInvalidDelegate")
    verified = ("util::shared::verify_position_authority", "util::shared::verify_position_authority_interface",
                "pinocchio::ported::util_shared::pino_verify_position_authority")
    for path, owner_fn in (("util::shared::verify_position_authority", "util::shared::validate_owner"),
                           ("util::shared::verify_position_authority_interface", "util::shared::validate_owner"),
                           ("pinocchio::ported::util_shared::pino_verify_position_authority", "pinocchio::ported::util_shared::pino_validate_owner"),
                           ("util::shared::verify_position_bundle_authority", "util::shared::validate_owner")):
        if path not in verified and facts.fn(path) is None:
            # the forwarding wrapper is gone: R1 demands one of the verified helpers directly in the bundle handlers
            run.ok("R2", "forwards@" + path, detail="wrapper no longer exists; bundle handlers are held to the verified helpers directly (R1)")
            continue
        fn = facts.need_fn(path)
        run.touch(fn)
        pv = prov_of(fn)
        auth_param = (fn.param_names() + [None, None])[1]
        if path not in verified:
            # the bundle helper "uses the same logic": either it hands its own two parameters, in order, to a verified helper and
            # returns that result, or it is held to the same rules itself
            fw = [(bi, t) for bi, t in fn.calls() if callee_path(t) in verified and not fn.blocks[bi]["c"]]
            if len(fw) == 1 and not [1 for bi, t in fn.calls() if callee_path(t) == owner_fn]:
                bi, t = fw[0]
                args = [strip(pv.operand(a, bi, len(fn.blocks[bi]["s"]))) for a in t["a"]]
                ok = [a[0] == "param" and a[1] for a in args] == fn.param_names() and t["d"]["l"] == 0 and not t["d"].get("p")
                run.check("R2", "forwards@" + path, ok, "%s does not hand (token account, authority) unchanged to %s and return its result" % (path, callee_path(t)),
                          loc=fn.loc(t["l"]), detail="same logic as %s" % callee_path(t).rsplit("::", 1)[-1])
                continue
        calls = [(bi, t) for bi, t in fn.calls() if callee_path(t) == owner_fn]
        n_owner = n_deleg = 0
        all_mp = True
        deleg_blocks = []
        if facts.fn(owner_fn) is None:
            # in place: on the owner path `token.owner == authority.key && authority.is_signer`, on the delegate path the same with
            # the delegate; each key test is followed, on its equal side, by a signer test whose false side fails, and no
            # successful path gets around the signer tests
            key_ats, sig_ats = [], []
            for at in A.atoms(fn):
                c = at.cond()
                txt = show(at.term)
                if "is_signer" in txt and mentions(at.term, lambda s: s[0] == "param" and s[1] == auth_param) and at.false_fail:
                    sig_ats.append(at)
                if c and c[0] in ("Eq", "Ne") and mentions(at.term, lambda s: s[0] == "param" and s[1] == auth_param) and "key" in txt:
                    other = show(c[2]) if mentions(c[1], lambda s: s[0] == "param" and s[1] == auth_param) else show(c[1])
                    ne_fails = at.true_fail if c[0] == "Ne" else at.false_fail
                    if ne_fails:
                        key_ats.append((at, "delegate" if "delegate" in other else ("owner" if "owner" in other else "?")))
            n_owner = sum(1 for _, k in key_ats if k == "owner")
            n_deleg = sum(1 for _, k in key_ats if k == "delegate")
            deleg_blocks = [at.block for at, k in key_ats if k == "delegate"]
            run.check("R2", "owner-path@" + path, n_owner == 1, "%s: expected exactly one `token_account.owner != authority key => fail` test, found %d" % (path, n_owner), loc=fn.loc(),
                      detail="owner path: owner == authority key (in place)")
            run.check("R2", "delegate-path@" + path, n_deleg == 1, "%s: expected exactly one `delegate != authority key => fail` test, found %d" % (path, n_deleg), loc=fn.loc(),
                      detail="delegate path: delegate == authority key (in place)")
            cut = {(at.block, t_) for at in sig_ats for t_ in at.true_targets}
            ok = len(sig_ats) >= 1 and not cfg.success_reach(fn, 0, cut_edges=cut)
            run.check("R2", "results-propagated@" + path, ok, "%s: a successful path does not pass `authority.is_signer` (false => fail)" % path, loc=fn.loc(), detail="!is_signer => fail on every successful path (in place)")
            cutk = {(at.block, t_) for at, _ in key_ats for t_ in (at.false_targets if at.cond()[0] == "Ne" else at.true_targets)}
            ok = bool(key_ats) and not cfg.success_reach(fn, 0, cut_edges=cutk)
            run.check("R2", "no-bypass@" + path, ok, "%s has a success path that compares neither owner nor delegate with the authority key" % path, loc=fn.loc(), detail="every success path passes a key test (in place)")
            calls = None
        for bi, t in (calls or []):
            a0 = pv.operand(t["a"][0], bi, len(fn.blocks[bi]["s"]))
            a1 = pv.operand(t["a"][1], bi, len(fn.blocks[bi]["s"]))
            s0 = show(a0)
            if "delegate" in s0:
                n_deleg += 1
                deleg_blocks.append(bi)
            elif "owner" in s0:
                n_owner += 1
            if not mentions(a1, lambda s: s[0] == "param" and s[1] == auth_param):
                all_mp = False
            info = cfg.result_ok_edge(fn, bi)
            if info is None:
                all_mp = False
            elif info["kind"] == "branch":
                for (_, b) in info["fail_edges"]:
                    if fn.blocks[b]["t"]["k"] != "unreachable" and not cfg.fail_only(fn, b):
                        all_mp = False
        if calls is not None:
            run.check("R2", "owner-path@" + path, n_owner == 1, "%s: expected exactly one validate_owner(token_account.owner, authority) call, found %d" % (path, n_owner), loc=fn.loc(),
                      detail="owner path validates token_account.owner against the authority account")
            run.check("R2", "delegate-path@" + path, n_deleg == 1, "%s: expected exactly one validate_owner(delegate, authority) call, found %d" % (path, n_deleg), loc=fn.loc(),
                      detail="delegate path validates the delegate against the authority account")
            run.check("R2", "results-propagated@" + path, all_mp and calls, "%s: a validate_owner result is dropped or not applied to the authority parameter" % path, loc=fn.loc(),
                      detail="both results are branched on (`?`)")
            # no success path avoids both calls
            ok = not cfg.success_reach(fn, 0, cut_blocks=[bi for bi, _ in calls])
            run.check("R2", "no-bypass@" + path, ok, "%s has a success path that validates neither owner nor delegate" % path, loc=fn.loc(), detail="every success path crosses a validate_owner call")
        # delegated amount
        amt = False
        for at in A.atoms(fn):
            for (op, a, b) in fail_conditions(at):
                for (o, x, y) in ((op, a, b), (A.SWAP[op], b, a)):
                    if o == "Ne" and "delegated_amount" in show(x) and const_val(y) == 1:
                        if "InvalidPositionTokenAmount" in (at.true_codes | at.false_codes) and deleg_blocks and \
                                all(cfg.dominates(fn, d, at.block) for d in deleg_blocks):
                            # every success path through the delegate call passes this test
                            if not cfg.success_reach(fn, deleg_blocks[0], cut_blocks=[at.block]):
                                amt = True
        run.check("R2", "delegated-amount@" + path, amt, "%s: the delegate path does not require delegated_amount == 1 on every success path" % path, loc=fn.loc(),
                  detail="delegated_amount != 1 => InvalidPositionTokenAmount after the delegate check")
        # delegate path condition: authority key == delegate
        cond = False
        for at in A.atoms(fn):
            s = show(at.term)
            c = at.cond()
            if c and c[0] in ("Eq", "Ne") and "delegate" in s and mentions(at.term, lambda x: x[0] == "param" and x[1] == auth_param) and "key" in s:
                eq_target = at.true_targets[0] if c[0] == "Eq" else at.false_targets[0]
                if deleg_blocks and all(eq_target == d or d in cfg.reach(fn, eq_target) for d in deleg_blocks):
                    ne_target = at.false_targets[0] if c[0] == "Eq" else at.true_targets[0]
                    if not any(d in cfg.reach(fn, ne_target) for d in deleg_blocks):
                        cond = True
        run.check("R2", "delegate-condition@" + path, cond, "%s: delegate path is not conditioned on authority key == delegate" % path, loc=fn.loc(),
                  detail="delegate path taken iff delegate == Some(authority key)")


ROLE_OF_METHOD = {
    "next": ("ro", False), "next_mut": ("mut", False), "next_signer": ("ro", True), "next_signer_mut": ("mut", True),
    "next_program_memo": ("prog:Memo", False), "next_program_token": ("prog:Token", False),
    "next_program_token_or_token_2022": ("prog:TokenInterface", False), "next_program_system": ("prog:System", False),
}


def _anchor_role(f):
    if f.kind == "Program":
        return ("prog:" + (f.inner or "?"), False)
    if f.kind == "Interface":
        return ("prog:" + (f.inner or "?"), False)
    return ("mut" if f.is_mut else "ro", f.kind == "Signer")


def R3_pinocchio_labelling(run):
    run.title("R3", "Pinocchio handlers: slot i is labelled like field i of the Anchor accounts struct (mut/signer/program class), next_signer* "
                    "really tests is_signer, and the position-authority helper dominates the first effect with the right slots")
    facts = run.facts
    structs = ACC.load(facts)
    it = pino.ITER
    for m in ("next_signer", "next_signer_mut"):
        fn = facts.need_fn(it + m)
        run.touch(fn)
        ok = False
        for at in A.atoms(fn):
            if "is_signer" in show(at.term) and at.false_fail:
                ok = True
        run.check("R3", "is_signer@" + m, ok, "AccountIterator::%s returns an account without failing on !is_signer" % m, loc=fn.loc(), detail="!is_signer => AccountNotSigner")
    for m in ("next_mut", "next_signer_mut"):
        fn = facts.need_fn(it + m)
        ok = any("is_writable" in show(at.term) and at.false_fail for at in A.atoms(fn))
        run.check("R3", "is_writable@" + m, ok, "AccountIterator::%s does not fail on !is_writable" % m, loc=fn.loc(), detail="!is_writable => AccountNotMutable")
    # program id labels
    fnp = facts.need_fn(it + "next_program_account")
    # every successful return lies behind a key comparison that held (`any(..)` or a loop returning on the first match): with the
    # holding edges of those comparisons cut, no success is reachable
    eqs = [at for at in A.atoms(fnp) if mentions(at.term, lambda t: t[0] == "call" and t[1].rsplit("::", 1)[-1] in ("pubkey_eq", "any", "eq", "contains"))]
    cut = {(at.block, tg) for at in eqs for tg in at.true_targets}
    okp = bool(eqs) and not cfg.success_reach(fnp, 0, cut_edges=cut)
    run.check("R3", "program-id", okp, "next_program_account does not fail on a non-matching program id", loc=fnp.loc(), detail="!any(pubkey_eq) => InvalidProgramId")
    expect_prog = {"next_program_memo": "MEMO_PROGRAM_ID", "next_program_token": "TOKEN_PROGRAM_ID",
                   "next_program_system": "SYSTEM_PROGRAM_ID"}
    for m, cname in expect_prog.items():
        fn = facts.need_fn(it + m)
        pv = prov_of(fn)
        names = set()
        for bi, t in fn.calls():
            if (callee_path(t) or "").endswith("next_program_account"):
                for s in subterms(pv.operand(t["a"][1], bi, len(fn.blocks[bi]["s"]))):
                    if s[0] == "const" and s[2]:
                        names.add(s[2].rsplit("::", 1)[-1])
        run.check("R3", "program-const@" + m, names == {cname}, "AccountIterator::%s accepts %s, expected exactly %s" % (m, sorted(names), cname), loc=fn.loc(), detail="accepts " + cname)
    fn = facts.need_fn(it + "next_program_token_or_token_2022")
    pv = prov_of(fn)
    names = set()
    for bi, t in fn.calls():
        if (callee_path(t) or "").endswith("next_program_account"):
            for s in subterms(pv.operand(t["a"][1], bi, len(fn.blocks[bi]["s"]))):
                if s[0] == "const" and s[2]:
                    names.add(s[2].rsplit("::", 1)[-1])
    run.check("R3", "program-const@next_program_token_or_token_2022", names == {"TOKEN_PROGRAM_ID", "TOKEN_2022_PROGRAM_ID"},
              "token-or-2022 label accepts %s" % sorted(names), loc=fn.loc(), detail="accepts TOKEN_PROGRAM_ID, TOKEN_2022_PROGRAM_ID")
    n = 0
    for e in program.entries(facts):
        if not e.routed:
            continue
        h = facts.need_fn(e.routed)
        run.touch(h)
        st = structs.get(e.ctx_struct)
        if st is None:
            run.missing("R3", "struct@" + e.name, "accounts struct %s not found" % e.ctx_struct)
            continue
        sl = pino.slots(h)
        run.check("R3", "slot-count@" + e.name, len(sl) == len(st.fields), "%s labels %d accounts, %s declares %d" % (e.routed, len(sl), st.name, len(st.fields)),
                  loc=h.loc(), detail="%d slots" % len(sl))
        for s, f in zip(sl, st.fields):
            n += 1
            want = _anchor_role(f)
            got = ROLE_OF_METHOD[s.method]
            # Anchor read-only non-signer accounts may be labelled plain `next`
            ok = got == want
            run.check("R3", "slot:%s#%d@%s" % (f.name, s.index, e.name), ok,
                      "account #%d (`%s`) is %s in %s but labelled %s() in the Pinocchio handler" % (s.index, f.name, want, st.name, s.method),
                      loc=h.loc(s.line), expected=str(want), found="%s -> %s" % (s.method, got), detail="%s: %s == %s" % (s.method, got, want))
        # authority check
        pv = prov_of(h)
        eff = [bi for bi, t in h.calls() if (callee_path(t) or "").endswith(("pino_sync_modify_liquidity_values", "pino_transfer_from_vault_to_owner",
                                                                              "pino_transfer_from_vault_to_owner_v2", "pino_transfer_from_owner_to_vault",
                                                                              "pino_transfer_from_owner_to_vault_v2", "pino_update_tick_array_accounts", "reset_position_range"))]
        ok = False
        why = "pino_verify_position_authority is not called"
        for bi, t in h.calls():
            if not (callee_path(t) or "").endswith("pino_verify_position_authority"):
                continue
            args = [pino.canon(h, pv.operand(a, bi, len(h.blocks[bi]["s"]))) for a in t["a"]]
            ta, sg = args[0], args[1]
            if ta[0] != "acct" or sg[0] != "slot":
                why = "arguments are not (loaded token account, account slot): %s, %s" % (pino.cshow(ta), pino.cshow(sg))
                continue
            sgs = sl[sg[2]]
            if not ROLE_OF_METHOD[sgs.method][1]:
                why = "authority slot `%s` is labelled %s(), not next_signer*()" % (sgs.name, sgs.method)
                continue
            tai = ta[2]
            if st.fields[tai].name != "position_token_account" or st.fields[sg[2]].name != "position_authority":
                why = "helper is applied to slots (%s, %s)" % (st.fields[tai].name, st.fields[sg[2]].name)
                continue
            # constraints on the token account
            have_mint = have_amt = False
            pos_slot = None
            from rules.common import verified_conditions
            for (cterm_, b2, _line) in verified_conditions(h):
                c = pino.canon(h, cterm_)
                mp, _ = cfg.must_pass_call(h, b2)
                if not mp or not cfg.dominates(h, b2, bi):
                    continue
                cs = strip(c)
                if cs[0] == "call" and cs[1].endswith("::eq") and len(cs[2]) == 2:
                    x, y = strip(cs[2][0]), strip(cs[2][1])
                    for (p1, p2) in ((x, y), (y, x)):
                        if p1 == ("field", ("acct", ta[1], tai), "mint") and p2[0] == "field" and p2[2] == "position_mint" and p2[1][0] == "acct":
                            have_mint = True
                            pos_slot = p2[1][2]
                if cs[0] == "bin" and cs[1] == "Eq":
                    x, y = strip(cs[2]), strip(cs[3])
                    for (p1, p2) in ((x, y), (y, x)):
                        if p1 == ("field", ("acct", ta[1], tai), "amount") and const_val(p2) == 1:
                            have_amt = True
            if not have_mint or not have_amt:
                why = "position token account is not constrained (mint == position.position_mint: %s, amount == 1: %s) before the authority check" % (have_mint, have_amt)
                continue
            if st.fields[pos_slot].name != "position":
                why = "token account is tied to slot `%s`, not the position" % st.fields[pos_slot].name
                continue
            mp, w2 = cfg.must_pass_call(h, bi)
            if not mp:
                why = "pino_verify_position_authority: " + w2
                continue
            nd = [b for b in eff if not cfg.dominates(h, bi, b)]
            if nd:
                why = "authority check does not dominate the effect at line %s" % h.blocks[nd[0]]["t"]["l"]
                continue
            if not eff:
                why = "no effect call found (anchor)"
                continue
            ok = True
            why = "pino_verify_position_authority(*position_token_account [mint == position.position_mint, amount == 1], next_signer position_authority)? dominates %d effect calls" % len(eff)
        run.check("R3", "authority@" + e.name, ok, "%s: %s" % (e.routed, why), loc=h.loc(), detail=why)
    run.floor("R3", "labelled slots", n, 80)


def R4_token_view_layout(run):
    run.title("R4", "the Pinocchio token-account / mint byte views have exactly SPL's Pod layouts, and the token account loader checks "
                    "owner program, length, initialised state and account type")
    facts = run.facts
    pairs = [("pinocchio::state::token::account::MemoryMappedTokenAccount", "PodAccount"),
             ("pinocchio::state::token::mint::MemoryMappedTokenMint", "PodMint")]
    for mm, pod in pairs:
        a = facts.adts.get(mm)
        if a is None:
            c = [p for p in facts.adts if p.endswith(mm.rsplit("::", 1)[-1])]
            a = facts.adts.get(c[0]) if len(c) == 1 else None
        b = [x for p, x in facts.adts.items() if p.endswith("::pod::" + pod)]
        if a is None or len(b) != 1:
            run.missing("R4", "layout:" + pod, "cannot find %s or spl %s in facts" % (mm, pod))
            continue
        b = b[0]
        fa = [(f["name"], o, s) for f, o, s in zip(a["variants"][0]["fields"], a["offsets"], a["fsizes"])]
        fb = [(f["name"], o, s) for f, o, s in zip(b["variants"][0]["fields"], b["offsets"], b["fsizes"])]
        run.check("R4", "size:" + pod, a["size"] == b["size"], "%s is %d bytes, SPL %s is %d" % (mm, a["size"], pod, b["size"]),
                  detail="size %d == %d" % (a["size"], b["size"]))
        da = {n: (o, s) for n, o, s in fa}
        for n, o, s in fb:
            got = da.get(n)
            # the view may split a PodCOption into (tag, value): accept `<name>` or `<name>_flag/_option`+value covering the same bytes
            if got is None:
                parts = sorted([(oo, ss, nn) for nn, (oo, ss) in da.items() if nn.startswith(n)])
                if parts and parts[0][0] == o and sum(p[1] for p in parts) == s:
                    run.ok("R4", "field:%s.%s" % (pod, n), detail="split into %s covering [%d, %d)" % ([p[2] for p in parts], o, o + s))
                    continue
            run.check("R4", "field:%s.%s" % (pod, n), got == (o, s),
                      "byte view field `%s` of %s is at %s, SPL %s has it at offset %d size %d" % (n, mm, got, pod, o, s),
                      expected="offset %d size %d" % (o, s), found=str(got), detail="offset %d size %d" % (o, s))


SPL_TOKEN_ID = bytes.fromhex("06ddf6e1d765a193d9cbe146ceeb79ac1cb485ed5f5b37913a8cf5857eff00a9")       # TokenkegQfeZyiNwAJbNbGKPFXCWuBvf9Ss623VQ5DA
SPL_TOKEN_2022_ID = bytes.fromhex("06ddf6e1ee758fde18425dbce46ccddab61afc4d83b90d27febdf928d8a18bfc")  # TokenzQdBNbLqP5VEhdkAS6EPFLC1PHnBqCXEpPxuEb


def R4b_token_account_loader(run):
    run.title("R4b", "Pinocchio load_token_program_account: every success passes check_owner_program(account, TOKEN_PROGRAM_ID | TOKEN_2022_PROGRAM_ID)? with the constant selected "
                     "by the owner's last byte, the constants are SPL's program ids, and multisig-sized, too short, uninitialised and wrong-account-type data is refused")
    facts = run.facts
    PA = "pinocchio::constants::address::"
    AL = "pinocchio::utils::account_load::"
    tb, t22 = facts.const_bytes(PA + "TOKEN_PROGRAM_ID"), facts.const_bytes(PA + "TOKEN_2022_PROGRAM_ID")
    run.check("R4b", "token-program-ids", tb == SPL_TOKEN_ID and t22 == SPL_TOKEN_2022_ID, "Pinocchio TOKEN_PROGRAM_ID / TOKEN_2022_PROGRAM_ID are not SPL's program ids", detail="Tokenkeg.. / Tokenz..")
    lb, lb22 = facts.const_value(AL + "LAST_BYTE_OF_TOKEN_PROGRAM_ID"), facts.const_value(AL + "LAST_BYTE_OF_TOKEN_2022_PROGRAM_ID")
    run.check("R4b", "last-bytes", lb == SPL_TOKEN_ID[31] and lb22 == SPL_TOKEN_2022_ID[31] and lb != lb22, "LAST_BYTE_OF_TOKEN(_2022)_PROGRAM_ID = %s / %s do not match the ids' last bytes" % (lb, lb22),
              detail="0x%02x / 0x%02x" % (SPL_TOKEN_ID[31], SPL_TOKEN_2022_ID[31]))
    fn = facts.need_fn(AL + "load_token_program_account")
    run.touch(fn)
    pv = prov_of(fn)
    from rules.common import owner_tests
    ots = owner_tests(fn)
    owner_calls = [(at.block, is_param(acct, "account_info"), name, "AccountOwnedByWrongProgram" in codes, at, neg) for (at, name, acct, codes, neg) in ots]
    ok = sorted(c[2] for c in owner_calls) == ["TOKEN_2022_PROGRAM_ID", "TOKEN_PROGRAM_ID"] and all(c[1] and c[3] for c in owner_calls)
    run.check("R4b", "owner-checks", ok, "load_token_program_account's owner checks are %s; expected !is_owned_by(&TOKEN_PROGRAM_ID) and !is_owned_by(&TOKEN_2022_PROGRAM_ID) to fail with AccountOwnedByWrongProgram" %
              [(c[2], c[1], c[3]) for c in owner_calls], loc=fn.loc(), detail="owner compared with the two SPL program id constants")
    if ok:
        cut = set()
        for c in owner_calls:
            at, neg = c[4], c[5]
            for tg in (at.false_targets if neg else at.true_targets):
                cut.add((at.block, tg))
        leak = cfg.success_reach(fn, 0, cut_edges=cut)
        run.check("R4b", "owner-check-on-every-success", not leak, "a success return of load_token_program_account avoids both owner checks", loc=fn.loc(), detail="no success path around the owner tests")
        # the arm taken for each last byte
        sw = [(bi, bb["t"]) for bi, bb in enumerate(fn.blocks) if bb["t"]["k"] == "switch" and mentions(pv.operand(bb["t"]["d"], bi, len(bb["s"])), lambda s_: s_[0] == "call" and s_[1].endswith("::owner"))]
        good = len(sw) == 1
        if good:
            bi, t = sw[0]
            arms = {int(v): b for v, b in t["ts"]}
            by_const = {c[2]: c[0] for c in owner_calls}
            pass_of = {c[2]: [(c[4].block, tg) for tg in (c[4].false_targets if c[5] else c[4].true_targets)] for c in owner_calls}
            good = set(arms) == {lb, lb22} and by_const["TOKEN_PROGRAM_ID"] in cfg.reach(fn, arms[lb], cut_blocks=[bi]) and \
                not cfg.success_reach(fn, arms[lb], cut_blocks=[bi], cut_edges=pass_of["TOKEN_PROGRAM_ID"]) and \
                by_const["TOKEN_2022_PROGRAM_ID"] in cfg.reach(fn, arms[lb22], cut_blocks=[bi]) and \
                not cfg.success_reach(fn, arms[lb22], cut_blocks=[bi], cut_edges=pass_of["TOKEN_2022_PROGRAM_ID"]) and not cfg.success_reach(fn, t["o"], cut_blocks=[bi])
        run.check("R4b", "arm-by-last-byte", good, "the owner's last byte does not select the matching program-id check (other owners must fail)", loc=fn.loc(), detail="0xa9 => Token, 0xfc => Token-2022, else error")
    want = {"multisig": False, "short": False, "uninit": False, "type": False}
    for at in A.atoms(fn):
        c = at.cond()
        if not c:
            continue
        txt = show(at.term)
        # the three length / initialised tests apply to both token programs: no successful path gets around them
        every = not cfg.success_reach(fn, 0, cut_blocks=[at.block])
        if c[0] == "Eq" and "MULTISIG_ACCOUNT_LEN" in txt and at.true_fail and every:
            want["multisig"] = True
        if c[0] == "Le" and "IS_INITIALIZED_OFFSET" in txt and "data_len" in txt and at.true_fail and every:
            want["short"] = True
        if c[0] == "Eq" and "IS_INITIALIZED_OFFSET" in txt and const_val(c[2]) == 0 and at.true_fail and every:
            want["uninit"] = True
        if c[0] == "Ne" and "ACCOUNT_TYPE" in txt and at.true_fail:
            want["type"] = True
    run.check("R4b", "data-checks", all(want.values()), "load_token_program_account lost a refusal: %s" % sorted(k for k, v in want.items() if not v), loc=fn.loc(),
              detail="multisig length, length <= init offset, init byte 0, account-type byte")


def R1g_admin_predicate(run):
    run.title("R1g", "is_admin_key(k) is membership of k in the build's ADMINS table and nothing else (no second table, no disjunct)")
    facts = run.facts
    fn = facts.need_fn("auth::admin::is_admin_key")
    run.touch(fn)
    pv = prov_of(fn)
    rets = [pv.local(0, bi, len(bb["s"])) for bi, bb in enumerate(fn.blocks) if bb["t"]["k"] == "ret"]
    lv = [strip(l) for r in rets for l in leaves(r)]
    ok = len(lv) == 1 and lv[0][0] == "call" and lv[0][1].rsplit("::", 1)[-1] in ("any", "contains") and len(lv[0][2]) == 2
    why = "is_admin_key returns %s" % " | ".join(show(l, True)[:120] for l in lv)
    if ok:
        recv, other = strip(lv[0][2][0]), lv[0][2][1]
        ok = recv[0] == "const" and (recv[2] or "").endswith("auth::admin::ADMINS")
        if ok and lv[0][1].endswith("any"):
            cl = [x for x in subterms(other) if x[0] == "closure"]
            cf = facts.fn(cl[0][1]) if len(cl) == 1 else None
            ok = cf is not None
            if ok:
                run.touch(cf)
                pc = prov_of(cf)
                cr = [strip(l) for bi, bb in enumerate(cf.blocks) if bb["t"]["k"] == "ret" for l in leaves(pc.local(0, bi, len(bb["s"])))]
                ok = len(cr) == 1 and ((cr[0][0] == "call" and cr[0][1].rsplit("::", 1)[-1] == "eq") or (cr[0][0] == "bin" and cr[0][1] == "Eq")) and \
                    mentions(cr[0], lambda x: x[0] in ("param", "upvar", "capture") or (x[0] == "field" and True))
                why = "the membership test of is_admin_key is %s" % " | ".join(show(x, True)[:120] for x in cr)
        elif ok:
            ok = mentions(other, lambda x: x[0] == "param" and x[1] == "maybe_admin")
    run.check("R1g", "admin-predicate", ok, why + "; expected ADMINS.iter().any(|a| key == a)", loc=fn.loc(), detail="ADMINS.iter().any(|admin| maybe_admin == admin)")


RULES = [R1_effect_requires_authority, R1g_admin_predicate, R1e_mutated_accounts_are_mut, R1b_no_unlisted_writers, R1c_migration_exception, R1d_delegated_authority_scope, R2_authority_helpers,
         R3_pinocchio_labelling, R4_token_view_layout, R4b_token_account_loader]
