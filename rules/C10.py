"""C10 A swap crosses exactly the initialized ticks in its path, however packaged.

Decided: tick arrays enter the swap only through the checked loader with this pool's key;
an array that does not exist on-chain is proxied by a zeroed array only if its PDA (this
pool, that start index) is among the supplied accounts, otherwise the sequence stops, and an
empty sequence fails; a loaded array is found wherever it sits among the loaded ones (the test that
chooses the initialised proxy is not computed from one end of the collection); supplied accounts are sorted and de-duplicated by key; the start
indexes follow the direction (and the shifted state); the next-initialised-tick search of
the fixed, dynamic and zeroed arrays agree except for the initialised-test primitive and all
use the shifted search range for b->a; the hand-over between arrays and the MIN / MAX /
array-edge sentinels; the loop cursor (tick := next - 1 iff a_to_b, array index advance at
the array edge of the trade direction).
Also decided: supplemental tick arrays reach the builder of their own pool (C15.R5b instances re-decided
here);
Not decided: equivalence of outcomes over all layouts / encodings / orders."""
from analysis import cfg, atoms as A, preach, siblings as S
from analysis.ir import callee_path, AnchorMissing
from analysis.prov import prov_of, prov_assuming, strip, leaves, subterms, show
from analysis.match import is_param, is_field, is_call, const_val, sh, mentions, fail_conditions
from rules.common import calls_to, ends, arg_name, acc
from analysis.poly import poly, show_poly
from rules.ranges import search_range_bounds
from rules import swaploop as SL
from rules import C15, C12

TA = "state::tick_array::TickArrayType"
FIXED = "<state::fixed_tick_array::TickArray as %s>" % TA
DYN = "<state::dynamic_tick_array::DynamicTickArrayLoader as %s>" % TA
ZERO = "<state::zeroed_tick_array::ZeroedTickArray as %s>" % TA


def R1_loaders(run):
    run.title("R1", "the swap path loads tick arrays only through load_tick_array_mut(account, this pool's key), whose success requires owner == program, length >= 8, "
                    "a known discriminator, the stored pool key and writability")
    facts = run.facts
    fn = facts.need_fn("state::tick_array::load_tick_array_mut")
    run.touch(fn)
    f = C15._loader_checks(run, "R1", fn)
    for k in ("owner", "len", "pool", "writable"):
        run.check("R1", "loader-" + k, f[k], "load_tick_array_mut no longer fails on a wrong %s" % k, loc=fn.loc(), detail=k)
    sl = C15.sequence_loader(facts)
    tb = sl["fn"]
    run.touch(tb)
    run.check("R1", "maybe-load-uses-pool-key", sl["load"] and sl["checked"], "try_build does not load each supplied account with the pool's own key and fail on the loader's error: %s" % sl["why"],
              loc=tb.loc(), detail="load_tick_array_mut(account, whirlpool.key())?")
    run.check("R1", "skip-only-uninitialised", sl["skip_only_empty"], "try_build skips accounts other than system-owned empty ones: %s" % sl["why"], loc=tb.loc(), detail="owner == system && empty => skipped")
    run.check("R1", "try_build-loads-all", sl["pushed"], "try_build does not collect every loaded array", loc=tb.loc(), detail="loaded_tick_arrays.push(load_tick_array_mut(..)?)")
    # who else creates ProxiedTickArray::Initialized
    from analysis import writes
    cons = {c["fn"].path for c in writes.constructions(facts, "util::sparse_swap::ProxiedTickArray")}
    run.check("R1", "proxy-constructors", cons <= {"util::sparse_swap::ProxiedTickArray::<'a>::new_initialized", "util::sparse_swap::ProxiedTickArray::<'a>::new_uninitialized"},
              "ProxiedTickArray values are built in %s" % sorted(cons), detail="only new_initialized / new_uninitialized")


def R2_proxy_and_order(run):
    run.title("R2", "try_build: a missing array is proxied by a zeroed array only when its PDA [b\"tick_array\", pool, start index] is among the supplied keys, otherwise "
                    "the sequence stops; empty => InvalidTickArraySequence; the builder sorts and de-duplicates accounts by key; start indexes follow direction and shift")
    facts = run.facts
    tb = facts.need_fn("util::sparse_swap::SparseSwapTickSequenceBuilder::<'info>::try_build")
    nu = calls_to(tb, ends("ProxiedTickArray::<'a>::new_uninitialized"))
    ok = False
    for at in A.atoms(tb):
        s = show(at.term, True)
        if "::any" in s and nu:
            t_reach = cfg.reach(tb, at.true_targets[0])
            f_reach = cfg.reach(tb, at.false_targets[0], cut_blocks=[at.block])
            # the zeroed proxy is built on the true side only; the false side leaves the loop (cannot reach the proxy construction without re-entering the atom)
            ok = all(c[0] in t_reach for c in nu) and not any(c[0] in f_reach for c in nu)
            anyc = [x for x in subterms(at.term) if x[0] == "call" and x[1].endswith("::any")]
    run.check("R2", "proxy-needs-pda-present", ok, "a zeroed tick array is used although its PDA was not supplied", loc=tb.loc(), detail="has_account_info => push zeroed; else break")
    # the PDA compared is derive_tick_array_pda(whirlpool, start index)
    # (the closure handed to `any`, wherever it is defined: a helper spliced into try_build keeps its own closure path)
    pvt = prov_of(tb)
    cpaths = set()
    for bi, t in tb.calls():
        if (t["f"].get("raw", callee_path(t) or "")).endswith("::any"):
            for a_ in t["a"]:
                for x in subterms(pvt.operand(a_, bi, len(tb.blocks[bi]["s"]))):
                    if x[0] == "closure":
                        cpaths.add(x[1])
    cl = [f for f in facts.fn_list if f.kind == "closure" and (f.path in cpaths or f.path.startswith(tb.path + "::{closure"))]
    okp = False
    for c in cl:
        pvc = prov_of(c)
        for bi, t in c.calls():
            raw = t["f"].get("raw", callee_path(t) or "")
            if raw.endswith("::eq") or raw.endswith("::ne"):
                args = [pvc.operand(a, bi, len(c.blocks[bi]["s"])) for a in t["a"]]
                if any(is_call(x, "key") for x in args):
                    okp = True
    dp = calls_to(tb, ends("derive_tick_array_pda"))
    okp = okp and len(dp) == 1 and is_param(dp[0][2][0], "whirlpool")
    run.check("R2", "pda-compared", okp, "try_build does not compare supplied keys with derive_tick_array_pda(whirlpool, start index)", loc=tb.loc(), detail="account key == derive_tick_array_pda(pool, start)")
    # a loaded array is found wherever it sits among the loaded ones: the accounts arrive sorted by key, not by start index, so a test that only
    # looks at one end of the collection (front/first/last/peek) leaves a supplied, initialised array behind and proxies it by a zeroed one
    ni = [c[0] for c in calls_to(tb, ends("ProxiedTickArray::<'a>::new_initialized"))]
    dec = []
    for bi, bb in enumerate(tb.blocks):
        t = bb["t"]
        if bb["c"] or t["k"] != "switch" or not ni:
            continue
        succ = {b for _, b in t["ts"]} | {t["o"]}
        r = [any(n in cfg.reach(tb, s_, cut_blocks=[bi]) for n in ni) for s_ in succ]
        if any(r) and not all(r) and all(cfg.dominates(tb, bi, n) for n in ni):
            dec.append(bi)
    near = [b for b in dec if not any(o != b and cfg.dominates(tb, b, o) for o in dec)]
    names = set()
    for b in near:
        names |= {x[1].rsplit("::", 1)[-1] for x in subterms(pvt.operand(tb.blocks[b]["t"]["d"], b, len(tb.blocks[b]["s"]))) if x[0] == "call"}
    one_end = names & {"front", "first", "back", "last", "peek", "pop_front", "pop_back", "pop", "front_mut", "first_mut", "last_mut", "back_mut"}
    whole = names & {"position", "rposition", "find", "find_map", "any", "binary_search_by_key", "binary_search_by", "contains_key", "get", "remove", "next"}
    run.check("R2", "loaded-array-found-anywhere", bool(ni) and bool(near) and not (one_end and not (whole - {"next"})),
              "whether a required array was loaded is decided from one end of the loaded collection (%s) instead of a search over all loaded arrays" % ",".join(sorted(one_end)) if ni and near
              else "try_build no longer builds an initialised proxy under a recognisable test", loc=tb.loc(), detail="loaded.iter().position(|a| a.start_tick_index() == start)")
    d = facts.need_fn("util::sparse_swap::derive_tick_array_pda")
    cs = calls_to(d, ends("find_program_address"))
    ok = len(cs) == 1
    if ok:
        seeds = cs[0][2][0]
        s = show(seeds, True)
        ok = "tick_array" in s and mentions(seeds, lambda x: x[0] == "call" and x[1] == "key" and is_param(x[2][0], "whirlpool")) and mentions(seeds, lambda x: x[0] == "param" and x[1] == "start_tick_index") and \
            mentions(cs[0][2][1], lambda x: x[0] == "call" and x[1].endswith("::owner"))
    run.check("R2", "pda-seeds", ok, "derive_tick_array_pda is not find_program_address([b\"tick_array\", pool key, start index string], program id)", loc=d.loc(), detail="seeds = [tick_array, pool, start]")
    empty = any("InvalidTickArraySequence" in (at.true_codes | at.false_codes) and at.true_fail and mentions(at.term, lambda x: x[0] == "call" and x[1].endswith("is_empty")) for at in A.atoms(tb))
    run.check("R2", "empty-sequence-fails", empty, "an empty tick-array sequence is not rejected", loc=tb.loc(), detail="required.is_empty() => InvalidTickArraySequence")
    nw = facts.need_fn("util::sparse_swap::SparseSwapTickSequenceBuilder::<'info>::new")
    run.touch(nw)
    so = [bi for bi, t in nw.calls() if (callee_path(t) or "").endswith("sort_by_key")]
    de = [bi for bi, t in nw.calls() if (callee_path(t) or "").endswith("dedup_by_key")]
    ok = len(so) == 1 and len(de) == 1 and cfg.dominates(nw, so[0], de[0])
    run.check("R2", "sort-then-dedup", ok, "the builder does not sort and then de-duplicate the supplied accounts by key", loc=nw.loc(), detail="sort_by_key(key); dedup_by_key(key)")
    ex = [bi for bi, t in nw.calls() if (callee_path(t) or "").endswith("::extend")]
    run.check("R2", "supplemental-merged", len(ex) == 1 and so and cfg.dominates(nw, ex[0], so[0]) is not None, "supplemental arrays are not merged before sorting", loc=nw.loc(), detail="extend(supplemental) before the sort")
    # start index offsets
    g = facts.need_fn("util::sparse_swap::get_start_tick_indexes")
    run.touch(g)
    for ab in (True, False):
        pv = prov_of(g, {"a_to_b": ab})
        arrays = set()
        for bi, bb in enumerate(g.blocks):
            if pv.flow.state_in[bi] is None:
                continue
            for si, st in enumerate(bb["s"]):
                if st["k"] == "=" and st["rv"].get("agg", {}).get("k") == "array":
                    vals = tuple(const_val(pv.operand(o, bi, si)) for o in st["rv"]["ops"])
                    if len(vals) == 3:
                        arrays.add(vals)
        want = {(0, -1, -2)} if ab else {(1, 2, 3), (0, 1, 2)}
        run.check("R2", "start-offsets[a_to_b=%d]" % ab, arrays == want, "array offsets for a_to_b=%s are %s, expected %s" % (ab, sorted(arrays), sorted(want)), loc=g.loc(), detail=str(sorted(want)))
    valid = any((callee_path(t) or "").endswith("check_is_valid_start_tick") for f in facts.fn_list if f.kind == "closure" and f.path.startswith(g.path) for _, t in f.calls())
    run.check("R2", "start-index-validity", valid, "start indexes outside the valid range are no longer filtered", loc=g.loc(), detail="filter by check_is_valid_start_tick")




def R3_search_siblings(run):
    run.title("R3", "get_next_init_tick_index of the fixed and dynamic arrays agree (guards, offset arithmetic, returned tick) except for the initialised-test primitive; the zeroed "
                    "array performs the same range check and returns None; all use shifted = !a_to_b; in_search_range / tick_offset / get_offset define one lookup")
    facts = run.facts
    ex = {r"\.ticks\[.*\]\.initialized =>": "fixed array tests ticks[i].initialized", r"^is_initialized_tick\(": "dynamic array tests bit i of the bitmap (C13.R2/R3 tie the bitmap to the slots)",
          r"^(0 Eq )?\(\(1 Shl .*\) BitAnd .*tick_bitmap.*\)": "the same bit test with is_initialized_tick read in place (C13.R3 decides it)",
          r"^tick_bitmap\(self\)$": "bitmap read", r"^start_tick_index\(self\)$": "accessor vs field"}
    C12.compare_pair(run, "R3", FIXED + "::get_next_init_tick_index", DYN + "::get_next_init_tick_index", exempt=ex, norm_a={"field_map": {}}, norm_b={"method_fields": ["start_tick_index"]},
                     semantic="slot_search")
    for name, path in (("fixed", FIXED), ("dynamic", DYN), ("zeroed", ZERO)):
        fn = facts.need_fn(path + "::get_next_init_tick_index")
        run.touch(fn)
        cs = calls_to(fn, lambda p: p.endswith("::in_search_range"))
        ok = len(cs) == 1
        if ok:
            a = cs[0][2]
            sh_ = strip(a[3])
            ok = is_param(a[1], "tick_index") and is_param(a[2], "tick_spacing") and sh_[0] == "un" and sh_[1] == "Not" and is_param(sh_[2], "a_to_b")
        # ... on every successful path (an early `Ok(None)` ahead of the range test lets an array sit anywhere in the sequence)
        rng = any("InvalidTickArraySequence" in at.false_codes and at.false_fail and mentions(at.term, lambda s: s[0] == "call" and s[1].endswith("in_search_range"))
                  and not cfg.success_reach(fn, 0, cut_blocks=[at.block]) for at in A.atoms(fn))
        run.check("R3", "shifted-range@" + name, ok and rng, "%s get_next_init_tick_index does not fail with InvalidTickArraySequence outside in_search_range(tick, spacing, !a_to_b)" % name, loc=fn.loc(),
                  detail="!in_search_range(tick_index, spacing, !a_to_b) => InvalidTickArraySequence")
    z = facts.need_fn(ZERO + "::get_next_init_tick_index")
    pv = prov_of(z)
    rets = []
    for bi, bb in enumerate(z.blocks):
        if bb["t"]["k"] == "ret":
            rets = [l for l in leaves(pv.local(0, bi, len(bb["s"]))) if l[0] == "agg" and l[2] == "Ok"]
    ok = len(rets) == 1 and strip(dict(rets[0][3])["0"])[0] == "agg" and strip(dict(rets[0][3])["0"])[2] == "None"
    if not rets:
        # `tick_offset(..).map(|_| None)`: the success value is whatever the closure returns - None for every offset
        maps = []
        for bi, bb in enumerate(z.blocks):
            if bb["t"]["k"] == "ret":
                maps = [strip(l) for l in leaves(pv.local(0, bi, len(bb["s"]))) if strip(l)[0] == "call" and strip(l)[1].rsplit("::", 1)[-1] == "map" and "Result" in strip(l)[1]]
        if len(maps) == 1:
            cl = [x for x in subterms(maps[0][2][1]) if x[0] == "closure"] if len(maps[0][2]) == 2 else []
            cf = facts.fn(cl[0][1]) if len(cl) == 1 else None
            if cf is not None:
                pc = prov_of(cf)
                cr = [strip(l) for b_, bb_ in enumerate(cf.blocks) if bb_["t"]["k"] == "ret" for l in leaves(pc.local(0, b_, len(bb_["s"])))]
                ok = bool(cr) and all(r[0] == "agg" and r[2] == "None" for r in cr)
    run.check("R3", "zeroed-returns-none", ok, "the zeroed array reports an initialised tick", loc=z.loc(), detail="Ok(None)")
    for path in (FIXED, DYN):
        fn = facts.need_fn(path + "::get_next_init_tick_index")
        for ab in (True, False):
            # the search read as a model (first slot, direction, last slot, array bounds, slot -> tick), whether it is written as a
            # cursor stepped in a loop or as Iterator::find over a (reversed) range
            from rules.ranges import search_model
            m, why = search_model(facts, fn, ab)
            want = dict(first={("o",): 1} if ab else {("o",): 1, (): 1}, dir=-1 if ab else 1, stop={} if ab else {(): 88}, guard=({}, {(): 88}), result={("T", "x"): 1, ("S",): 1})
            got = {k: m[k] for k in want} if m else None
            run.check("R3", "step-direction@%s[a_to_b=%d]" % ("fixed" if path is FIXED else "dynamic", ab), got == want,
                      "the slot search for a_to_b=%s is %s, expected first slot %s, step %+d until %s inside [0, 88), found slot x -> x * spacing + start (a_to_b searches leftwards inclusive, b_to_a rightwards exclusive)" % (
                          ab, ("first %s, step %s, until %s, guard %s, result %s" % (show_poly(got["first"]), got["dir"], show_poly(got["stop"]), [show_poly(g) for g in got["guard"]], show_poly(got["result"])))
                          if got else "not recognisable (%s)" % why, "offset" if ab else "offset + 1", want["dir"], "0" if ab else "88"), loc=fn.loc(),
                      detail="offset %s 1%s (%s form)" % ("-" if ab else "+", "" if ab else " (and +1 before the first test)", m["form"] if m else "?"))
    # in_search_range
    fn = facts.need_fn(TA + "::in_search_range")
    run.touch(fn)
    for shifted in (False, True):
        got, why = search_range_bounds(fn, shifted)
        s_ = 1 if shifted else 0
        want = {"Ge": {("S",): 1, ("T",): -s_}, "Lt": {("S",): 1, ("T",): 88 - s_}}
        want = {k: {m: c for m, c in v.items() if c} for k, v in want.items()}
        ok = got == want
        run.check("R3", "in_search_range[shifted=%d]" % shifted, ok, "in_search_range(shifted=%s) accepts %s%s" % (shifted, " and ".join(
            "tick %s %s" % (">=" if k == "Ge" else "<", show_poly(v)) for k, v in sorted((got or {}).items())) or "nothing recognisable", "; " + why if why else ""), loc=fn.loc(),
            detail="start - s*spacing <= tick < start + 88*spacing - s*spacing, s = %d" % s_)
    g = facts.need_fn("state::tick_array::get_offset")
    from rules.ranges import floor_div_form
    fd, why = floor_div_form(g)
    ok = fd is not None
    if ok:
        x, y = fd
        ok = x[0] == "bin" and x[1].startswith("Sub") and is_param(x[2], "tick_index") and is_param(x[3], "start_tick_index") and is_param(y, "tick_spacing")
        why = "it divides %s by %s" % (show(x), show(y))
    run.check("R3", "floor-offset", ok, "get_offset is no longer floor((tick_index - start_tick_index) / tick_spacing) (d - 1 when the remainder is negative): %s" % why, loc=g.loc(),
              detail="floor division (hand-written or div_euclid by a widened unsigned spacing)")


def R3b_array_selection(run):
    run.title("R3b", "the sparse-swap builder names the arrays the search will walk: a_to_b the current array and the two below; b_to_a the current and the two above, shifted "
                     "up by one exactly when tick_current + spacing >= start of the next array (the b_to_a search starts one spacing past the current tick)")
    facts = run.facts
    fn = facts.need_fn("util::sparse_swap::get_start_tick_indexes")
    run.touch(fn)

    def atom(t):
        t = strip(t)
        if t[0] == "field" and t[2] == "tick_current_index":
            return "C"
        if t[0] == "field" and t[2] == "tick_spacing":
            return "T"
        if t[0] == "call" and t[1].endswith("floor_division") and len(t[2]) == 2 and atom(t[2][0]) == "C" and poly(t[2][1], atom) == {("T",): 88}:
            return "q"
        return show(t, True)

    def offsets(pv):
        out = set()
        for bi, t in fn.calls():
            if (callee_path(t) or "").rsplit("::", 1)[-1] in ("iter", "into_iter") and not fn.blocks[bi]["c"] and (pv.flow is None or pv.flow.state_in[bi] is not None):
                for l in leaves(pv.operand(t["a"][0], bi, len(fn.blocks[bi]["s"]))):
                    l = strip(l)
                    if l[0] == "array":
                        out.add(tuple(const_val(x) for x in l[1]))
        return out
    got_ab = offsets(prov_of(fn, {"a_to_b": True}))
    run.check("R3b", "offsets[a_to_b=1]", got_ab == {(0, -1, -2)}, "a_to_b names arrays at offsets %s, expected [0, -1, -2]" % sorted(got_ab), loc=fn.loc(), detail="[0, -1, -2]")
    sel = [at for at in A.atoms(fn, {"a_to_b": False}) if at.cond() and not is_param(at.term, "a_to_b")]
    ok = len(sel) == 1 and sel[0].cond()[0] in ("Ge", "Gt", "Le", "Lt")
    why = "%d selecting test(s)" % len(sel)
    if ok:
        at = sel[0]
        op, a, b = at.cond()
        if op in ("Le", "Lt"):
            op, a, b = {"Le": "Ge", "Lt": "Gt"}[op], b, a
        d = dict(poly(a, atom))
        for m, c in poly(b, atom).items():
            d[m] = d.get(m, 0) - c
        if op == "Gt":
            d[()] = d.get((), 0) - 1
        d = {m: c for m, c in d.items() if c}
        want = {("C",): 1, ("T",): -87, tuple(sorted(("q", "T"))): -88}
        t_off = offsets(prov_assuming(fn, [(at, True)], ctx={"a_to_b": False}))
        f_off = offsets(prov_assuming(fn, [(at, False)], ctx={"a_to_b": False}))
        ok = d == want and t_off == {(1, 2, 3)} and f_off == {(0, 1, 2)}
        why = "shifted iff %s >= 0; shifted -> %s, else %s" % (show_poly(d), sorted(t_off), sorted(f_off))
    run.check("R3b", "offsets[a_to_b=0]", ok, "b_to_a array selection: %s; expected [1, 2, 3] iff tick_current + spacing >= next array's start, else [0, 1, 2]" % why, loc=fn.loc(),
              detail="shifted iff C + T >= floor(C / 88T) * 88T + 88T")


def R4_sequence(run):
    run.title("R4", "get_next_initialized_tick_index: index past the supplied arrays => error; no tick found: a_to_b at the minimum array => MIN_TICK_INDEX, b_to_a at the maximum "
                    "array => MAX_TICK_INDEX, last supplied array => its first / last tick, otherwise continue in the next array from its edge in trade direction")
    facts = run.facts
    fn = facts.need_fn("util::swap_tick_sequence::SwapTickSequence::<'a>::get_next_initialized_tick_index")
    run.touch(fn)
    oob = any("TickArraySequenceInvalidIndex" in cfg.block_error_codes(fn, b) for b in range(len(fn.blocks)))
    run.check("R4", "index-out-of-range", oob, "running past the supplied arrays is no longer an error (liquidity would be skipped)", loc=fn.loc(), detail="arrays.get(i) == None => TickArraySequenceInvalidIndex")
    for ab in (True, False):
        ctx = {"a_to_b": ab}
        pv = prov_of(fn, ctx, cut=True)
        rets = []
        for bi, bb in enumerate(fn.blocks):
            if bb["t"]["k"] == "ret" and pv.flow.state_in[bi] is not None:
                rets = [strip(dict(l[3])["0"]) for l in leaves(pv.local(0, bi, len(bb["s"]))) if l[0] == "agg" and l[2] == "Ok"]
        vals = []
        for r in rets:
            if r[0] == "tuple":
                vals.append(strip(r[1][1]))
        kinds = set()
        # (a bound handed over as Option and unwrapped behind `if let Some(..)`: the None alternative does not reach the return)
        flat = []
        for v in vals:
            if v[0] == "phi":
                flat += [strip(x) for x in v[1] if not (strip(x)[0] == "agg" and strip(x)[2] == "None")]
            else:
                flat.append(v)
        for v in flat:
            if const_val(v) == (-443636 if ab else 443636):
                kinds.add("bound")
            elif const_val(v) is not None:
                kinds.add("wrong-bound:%s" % const_val(v))
            elif v[0] == "q" or (v[0] == "variant") or mentions(v, lambda s: s[0] == "call" and s[1].endswith("get_next_init_tick_index")):
                kinds.add("found")
            elif is_call(v, "start_tick_index") and ab:
                kinds.add("array-first")
            elif v[0] == "bin" and not ab and mentions(v, lambda s: s[0] == "call" and s[1].endswith("start_tick_index")):
                # start + ticks_in_array - 1
                s_ = show(v)
                kinds.add("array-last" if ("Sub 1" in s_ and "Add" in s_) else "?" + s_[:40])
            else:
                kinds.add("?" + show(v)[:40])
        want = {"bound", "found", "array-first" if ab else "array-last"}
        run.check("R4", "results[a_to_b=%d]" % ab, kinds == want, "a_to_b=%s returns tick indexes of kinds %s, expected %s" % (ab, sorted(kinds), sorted(want)), loc=fn.loc(),
                  detail="found | %s | %s" % ("MIN_TICK_INDEX at the min array" if ab else "MAX_TICK_INDEX at the max array", "first tick of the last array" if ab else "last tick of the last array"))
        # the bound is returned only behind the matching edge test
        ev = preach.call_events(facts, fn, ctx, lambda p: p.endswith("is_min_tick_array") or p.endswith("is_max_tick_array"), depth=0)
        got = {p.rsplit("::", 1)[-1] for p, _ in ev}
        run.check("R4", "edge-test[a_to_b=%d]" % ab, got == {"is_min_tick_array" if ab else "is_max_tick_array"}, "a_to_b=%s consults %s" % (ab, sorted(got)), loc=fn.loc(),
                  detail="is_min_tick_array" if ab else "is_max_tick_array")
        # continuation search index
        # the search position: the re-assigned local that starts as the `tick_index` parameter
        l = None
        for loc_ in range(fn.argc + 1, len(fn.locals)):
            if fn.locals[loc_].get("n") and len(pv.var_defs(loc_)) >= 2 and any(is_param(t, "tick_index") for (_, _, t) in pv.var_defs(loc_)):
                l = loc_
        defs = [strip(t) for (_, _, t) in pv.var_defs(l)] if l else []
        cont = [t for t in defs if not is_param(t, "tick_index")]
        ok = len(cont) == 1
        if ok:
            s_ = show(cont[0])
            ok = ("start_tick_index" in s_ and "Sub 1" in s_ and ("Add" not in s_ if ab else "Add" in s_))
        run.check("R4", "hand-over[a_to_b=%d]" % ab, ok, "next search position for a_to_b=%s is %s, expected %s" % (ab, [show(t)[:80] for t in cont], "start - 1" if ab else "start + ticks_in_array - 1"), loc=fn.loc(),
                  detail="start - 1" if ab else "start + ticks_in_array - 1")
    for name, want_cmp in (("is_min_tick_array", ("Le", -443636)), ("is_max_tick_array", ("Gt", 443636))):
        g = facts.need_fn(TA + "::" + name)
        pv = prov_of(g)
        ok = False

        def atom_(t):
            t = strip(t)
            if t[0] == "call" and t[1].endswith("start_tick_index"):
                return "S"
            if t[0] == "param" and t[1] == "tick_spacing":
                return "T"
            return show(t, True)
        want_poly = {("S",): 1} if "min" in name else {("S",): 1, ("T",): 88}
        for bi, bb in enumerate(g.blocks):
            if bb["t"]["k"] == "ret":
                r = strip(pv.local(0, bi, len(bb["s"])))
                if r[0] == "bin" and r[1] in A.SWAP:
                    # whichever side the constant is written on
                    op_, l_, c_ = (r[1], r[2], r[3]) if const_val(r[3]) is not None else (A.SWAP[r[1]], r[3], r[2])
                    ok = op_ == want_cmp[0] and const_val(c_) == want_cmp[1] and poly(l_, atom_) == want_poly
        run.check("R4", name, ok, "%s is no longer start %s %d" % (name, want_cmp[0], want_cmp[1]), loc=g.loc(), detail="start%s %s %d" % (" + 88*spacing" if "max" in name else "", want_cmp[0], want_cmp[1]))
    # array index out of range in the accessors
    for name in ("get_tick", "update_tick", "get_tick_offset"):
        g = facts.need_fn("util::swap_tick_sequence::SwapTickSequence::<'a>::" + name)
        ok = any("TickArrayIndexOutofBounds" in cfg.block_error_codes(g, b) for b in range(len(g.blocks)))
        run.check("R4", "oob@" + name, ok, "SwapTickSequence::%s no longer fails on an array index past the sequence" % name, loc=g.loc(), detail="None => TickArrayIndexOutofBounds")


def R5_loop_cursor(run):
    run.title("R5", "swap loop cursor: after reaching the next tick, curr_tick := next - 1 iff a_to_b else next; the array index advances iff (a_to_b && offset == 0) || "
                    "(!a_to_b && offset == TICK_ARRAY_SIZE - 1); the search starts from the loop's current tick and array index")
    facts = run.facts
    sw = facts.need_fn(SL.SWAP)
    run.touch(sw)
    for ab in (True, False):
        ctx = {"a_to_b": ab}
        m = SL.SwapModel(facts, ctx)
        ups = [strip(t) for (_, _, t) in m.updates("tick") if not is_field(t, "tick_current_index")]
        other = [t for t in ups if is_call(t, "tick_index_from_sqrt_price")]
        reach = [t for t in ups if t not in other]
        ok = len(reach) == 1
        if ok:
            # `next - i32::from(a_to_b)`: the widened flag is the constant the direction fixes
            def fold(x):
                x = strip(x)
                if x[0] == "cast" and strip(x[1])[0] == "param" and strip(x[1])[1] in ctx:
                    return ("const", int(ctx[strip(x[1])[1]]), None, x[2])
                if x[0] == "bin" and x[1] in ("Sub", "SubWithOverflow", "Add", "AddWithOverflow"):
                    a_, b_ = fold(x[2]), fold(x[3])
                    if b_[0] == "param" and b_[1] in ctx:      # (strip() looks through the widening cast)
                        b_ = ("const", int(ctx[b_[1]]), None, None)
                    if b_[0] == "const" and b_[1] == 0 and not isinstance(b_[1], bool):
                        return a_
                    return (x[0], x[1], a_, b_)
                return x
            t = fold(reach[0])
            if ab:
                ok = t[0] == "bin" and t[1] in ("Sub", "SubWithOverflow") and const_val(t[3]) == 1 and strip(t[2])[0] == "field" and strip(t[2])[2] == "1"
            else:
                ok = t[0] == "field" and t[2] == "1"
        run.check("R5", "tick-after-cross[a_to_b=%d]" % ab, ok, "after reaching the next tick the cursor becomes %s, expected next%s" % ([show(t)[:60] for t in reach], " - 1" if ab else ""), loc=sw.loc(),
                  detail="curr_tick := next%s" % (" - 1" if ab else ""))
        ok = len(other) == 1 and is_call(other[0], "tick_index_from_sqrt_price") and m.step_field(strip(other[0])[2][0], "next_price")
        run.check("R5", "tick-mid-range[a_to_b=%d]" % ab, ok, "when the step ends between ticks the cursor is not tick_index_from_sqrt_price(step.next_price)", loc=sw.loc(), detail="curr_tick := tick(next_price)")
        # ... and only when the price actually moved: a step that moves nothing keeps the cursor (after stopping exactly on a tick in an
        # a_to_b swap the cursor is tick - 1 while the price is the tick's; recomputing it from the price would jump back over the tick)
        mid_blocks = [b_ for (b_, _, t_) in m.updates("tick") if is_call(strip(t_), "tick_index_from_sqrt_price")]
        moved = None
        for at in A.atoms(sw, ctx, cut=True):
            c = at.cond()
            if c and c[0] in ("Ne", "Eq") and ((m.step_field(c[1], "next_price") and m.is_var(c[2], "price")) or (m.step_field(c[2], "next_price") and m.is_var(c[1], "price"))):
                moved = at
        ok = moved is not None and len(mid_blocks) == 1
        if ok:
            yes = moved.true_targets[0] if moved.cond()[0] == "Ne" else moved.false_targets[0]
            no = moved.false_targets[0] if moved.cond()[0] == "Ne" else moved.true_targets[0]
            ok = mid_blocks[0] in cfg.reach(sw, yes, cut_blocks=[moved.block]) and mid_blocks[0] not in cfg.reach(sw, no, cut_blocks=[moved.block] + mid_blocks[:0] + [b_ for b_ in [cs_[0] for cs_ in calls_to(sw, ends("compute_swap"), ctx=ctx, cut=True)]])
        run.check("R5", "tick-mid-range-only-if-moved[a_to_b=%d]" % ab, ok, "the cursor is recomputed from the price even when the step did not move the price (`else if next_price != curr_sqrt_price`)", loc=sw.loc(),
                  detail="next_price != current price => curr_tick := tick(next_price); otherwise unchanged")
        # array index advance condition
        conds = []
        for at in A.atoms(sw, ctx, cut=True):
            c = at.cond()
            if c and c[0] in ("Eq", "Ne") and mentions(c[1], lambda s: s[0] == "call" and s[1].endswith("get_tick_offset")):
                conds.append((c[0], strip(c[2])))
        ok = len(conds) == 1
        if ok:
            v = conds[0][1]
            if ab:
                ok = const_val(v) == 0
            else:
                ok = v[0] == "bin" and v[1] in ("Sub", "SubWithOverflow") and const_val(v[3]) == 1 and const_val(strip(v[2])) == 88
        run.check("R5", "array-advance[a_to_b=%d]" % ab, ok, "array index advance for a_to_b=%s tests offset against %s, expected %s" % (ab, [show(c[1])[:40] for c in conds], "0" if ab else "TICK_ARRAY_SIZE - 1"),
                  loc=sw.loc(), detail="offset == %s => next array" % ("0" if ab else "87"))
        ups = [strip(t) for (_, _, t) in m.updates("array_index") if const_val(t) != 0]
        ok = len(ups) == 1
        if ok:
            alts = leaves(ups[0])
            plus = [x for x in alts if strip(x)[0] == "bin" and strip(x)[1] in ("Add", "AddWithOverflow") and const_val(strip(x)[3]) == 1]
            same = [x for x in alts if strip(x)[0] == "field" and strip(x)[2] == "0"]
            ok = len(plus) == 1 and len(same) == 1
        run.check("R5", "array-index-values[a_to_b=%d]" % ab, ok, "array index is not {next_array_index, next_array_index + 1}", loc=sw.loc(), detail="next_array_index (+1 at the edge)")
    m = SL.SwapModel(facts, {})
    cs = calls_to(sw, ends("get_next_initialized_tick_index"), ctx={}, cut=True)
    ok = len(cs) == 1 and m.is_var(cs[0][2][1], "tick") and arg_name(cs[0][2][2]) == "tick_spacing" and is_param(cs[0][2][3], "a_to_b") and m.is_var(cs[0][2][4], "array_index")
    run.check("R5", "search-from-cursor", ok, "the next-tick search does not start from (current tick, pool spacing, a_to_b, current array index)", loc=sw.loc(), detail="get_next_initialized_tick_index(curr_tick, spacing, a_to_b, curr_array)")


def R6_array_grid(run):
    run.title("R6", "tick arrays sit on one grid: check_is_valid_start_tick = start % (TICK_ARRAY_SIZE * spacing) == 0 inside the tick bounds, and below them only the single "
                    "left-edge start MIN - (MIN % n + n); both array initialisers fail with InvalidStartTick unless it holds for (start, pool spacing)")
    facts = run.facts
    fn = facts.need_fn("state::tick::Tick::check_is_valid_start_tick")
    run.touch(fn)
    pv = prov_of(fn)
    rets = [strip(x) for bi, bb in enumerate(fn.blocks) if bb["t"]["k"] == "ret" for x in leaves(pv.local(0, bi, len(bb["s"])))]

    def is_n(t):
        t = strip(t)
        return t[0] == "bin" and t[1].startswith("Mul") and {const_val(t[2]), const_val(t[3])} & {88} and any(mentions(x, lambda s_: s_[0] == "param" and s_[1] == "tick_spacing") for x in (t[2], t[3]))
    grid = [r for r in rets if r[0] == "bin" and r[1] == "Eq" and const_val(r[3]) == 0 and strip(r[2])[0] == "bin" and strip(r[2])[1] == "Rem" and is_param(strip(r[2])[2], "tick_index") and is_n(strip(r[2])[3])]
    edge = []
    for r in rets:
        if r[0] == "bin" and r[1] == "Eq" and is_param(r[2], "tick_index"):
            e = strip(r[3])
            if e[0] == "bin" and e[1].startswith("Sub") and const_val(e[2]) == -443636:
                inner = strip(e[3])
                if inner[0] == "bin" and inner[1].startswith("Add") and is_n(inner[3]):
                    rm = strip(inner[2])
                    if rm[0] == "bin" and rm[1] == "Rem" and const_val(rm[2]) == -443636 and is_n(rm[3]):
                        edge.append(r)
    ok = len(grid) == 1 and len(edge) == 1 and any(const_val(r) == 0 for r in rets) and len(rets) == 3
    run.check("R6", "valid-start-tick", ok, "check_is_valid_start_tick returns %s; expected tick %% (88 * spacing) == 0, the left-edge start, or false" % [sh(r, 70) for r in rets], loc=fn.loc(),
              detail="start % (88 * spacing) == 0 | start == MIN - (MIN % n + n) | false")
    ats = A.atoms(fn)
    oob = [at for at in ats if is_call(at.term, "check_is_out_of_bounds") and is_param(strip(at.term)[2][0], "tick_index")]
    gt = [at for at in ats if at.cond() and at.cond()[0] == "Gt" and is_param(at.cond()[1], "tick_index") and const_val(at.cond()[2]) == -443636 and at.true_ret and all(const_val(x) == 0 for x in at.true_ret)]
    run.check("R6", "edge-case-guards", len(oob) == 1 and len(gt) == 1, "check_is_valid_start_tick lost its out-of-bounds / above-minimum guards", loc=fn.loc(), detail="out of bounds && tick > MIN => false")
    for path in ("state::fixed_tick_array::FixedTickArray::initialize", "state::dynamic_tick_array::DynamicTickArray::initialize"):
        g = facts.fn(path)
        if g is None:
            cands = [x for x in facts.fn_list if x.path.endswith("::initialize") and ("fixed_tick_array" in x.path or "dynamic_tick_array" in x.path) and ("Fixed" in path) == ("fixed_tick_array" in x.path)]
            g = cands[0] if len(cands) == 1 else None
        if g is None:
            run.missing("R6", "initializer@" + path.rsplit("::", 2)[-2], "tick array initialiser %s not found" % path)
            continue
        run.touch(g)
        ok = False
        stores = [bi for bi, bb in enumerate(g.blocks) for st in bb["s"] if st["k"] == "=" and "p" in st["p"] and any(isinstance(e, dict) and e.get("f") == "start_tick_index" for e in st["p"]["p"])]
        stores += [bi for bi, t in g.calls() if (callee_path(t) or "").endswith("copy_from_slice")]   # the byte-mapped initialiser writes through slices
        for at in A.atoms(g):
            if is_call(at.term, "check_is_valid_start_tick") and at.false_fail and "InvalidStartTick" in at.false_codes:
                a_ = strip(at.term)[2]
                ok = is_param(a_[0], "start_tick_index") and arg_name(a_[1]) == "tick_spacing" and bool(stores) and all(A.guarded_by(g, at, b_) for b_ in stores)
        run.check("R6", "initializer@" + g.path.rsplit("::", 2)[-2], ok, "%s does not refuse an invalid start tick (check_is_valid_start_tick(start, pool.tick_spacing)) before storing it" % g.path, loc=g.loc(),
                  detail="!valid start => InvalidStartTick, before start_tick_index is stored")


def R7_cross_checks(run):
    run.title("R7", 'supplemental tick arrays reach the builder of their own pool (C15.R5b instances: a remaining-accounts slice of type X only fills the field named after X)')
    from rules.common import RuleProxy
    from rules import C15
    C15.R5b_remaining_accounts(RuleProxy(run, 'R7'))


RULES = [R1_loaders, R2_proxy_and_order, R3_search_siblings, R3b_array_selection, R4_sequence, R5_loop_cursor, R6_array_grid, R7_cross_checks]
