"""C05 Tradable liquidity at any price equals the sum of positions covering it.

Decided: who may write pool / tick / position liquidity and from which computed values;
one liquidity delta reaches the pool update, the lower-tick update (add to net), the
upper-tick update (subtract from net) and the position update; the in-range test is
exactly lower <= current < upper; gross == 0 returns the default (uninitialised) update, otherwise initialized = true;
a crossing adds -net (a_to_b) or +net and happens only on initialised ticks reached
exactly; the sync step applies each computed update to its own tick index.
Also decided: the swap's tick-cursor and array hand-over rules, the array grid and the range validator of
both packagings (instances of C10.R4-R6 and C18.R7 re-decided here);
Also decided: add_liquidity_delta is l + d checked both ways with |d| taken unsigned; after the step computation exactly two
tests (step ended at the tick's price, tick initialised) decide a crossing; every pool / tick / position write-back is
unconditional (C12.R3 instances).
Also decided: both sync_modify_liquidity_values apply the pool, position and both tick updates on every successful path.
Not decided: the sum equality over histories; the tick-array search (C10)."""
from analysis import cfg, atoms as A, preach, writes
from analysis.ir import callee_path, AnchorMissing
from analysis.prov import prov_assuming, prov_of, strip, leaves, subterms, show
from analysis.match import is_param, is_field, is_call, const_val, sh, mentions
from rules.common import calls_to, ends, argname_mismatches, arg_name
from rules import swaploop as SL

W = "state::whirlpool::Whirlpool"
MW = "pinocchio::state::whirlpool::whirlpool::MemoryMappedWhirlpool"
PM = "pinocchio::ported::manager_liquidity_manager::"


def R1_writers(run):
    run.title("R1", "liquidity state is written only by the designated updaters, each from the value computed by the liquidity / swap managers")
    facts = run.facts
    expect = {
        (W, "liquidity"): {W + "::initialize", W + "::update_after_swap", W + "::update_rewards_and_liquidity"},
        (MW, "liquidity"): {MW + "::update_liquidity_and_reward_growth_global"},    # (its three private setters are read spliced in)
        ("state::tick::Tick", "liquidity_net"): {"state::tick::Tick::update"},
        ("state::tick::Tick", "liquidity_gross"): {"state::tick::Tick::update"},
        ("state::tick::Tick", "initialized"): {"state::tick::Tick::update"},
        ("pinocchio::state::whirlpool::tick_array::tick::MemoryMappedTick", "liquidity_net"): {"pinocchio::state::whirlpool::tick_array::tick::MemoryMappedTick::update"},
        ("pinocchio::state::whirlpool::tick_array::tick::MemoryMappedTick", "liquidity_gross"): {"pinocchio::state::whirlpool::tick_array::tick::MemoryMappedTick::update"},
        ("pinocchio::state::whirlpool::tick_array::tick::MemoryMappedTick", "initialized"): {"pinocchio::state::whirlpool::tick_array::tick::MemoryMappedTick::update"},
        ("state::position::Position", "liquidity"): {"state::position::Position::update"},
        # (the private setter, or the same store written in `update` itself: C12.R3 ties the stored value to update.liquidity either way)
        ("pinocchio::state::whirlpool::position::MemoryMappedPosition", "liquidity"): {"pinocchio::state::whirlpool::position::MemoryMappedPosition::set_liquidity",
                                                                                       "pinocchio::state::whirlpool::position::MemoryMappedPosition::update"},
    }
    for (adt, field), allowed in expect.items():
        ws = {w["fn"].path for w in writes.writers_of(facts, adt, field)}
        extra = ws - allowed
        run.check("R1", "writers:%s.%s" % (adt.rsplit("::", 1)[-1], field), ws and not extra,
                  "%s.%s is written by %s outside its designated updater(s)" % (adt, field, sorted(extra) or "nobody"),
                  detail="writers: " + ", ".join(sorted(x.rsplit("::", 2)[-2] + "::" + x.rsplit("::", 1)[-1] for x in ws)))
    # initialize stores 0
    fn = facts.need_fn(W + "::initialize")
    pv = prov_of(fn)
    ws = [w for w in writes.writers_of(facts, W, "liquidity") if w["fn"] is fn]
    ok = ws and all(const_val(pv._rvalue(w["rv"], w["block"], w["stmt"], 0)) == 0 for w in ws)
    run.check("R1", "init-zero", ok, "Whirlpool::initialize does not start the pool liquidity at 0", loc=fn.loc(), detail="liquidity := 0")
    # update_after_swap / update_rewards_and_liquidity store their `liquidity` parameter
    for p in (W + "::update_after_swap", W + "::update_rewards_and_liquidity"):
        fn = facts.need_fn(p)
        pv = prov_of(fn)
        ws = [w for w in writes.writers_of(facts, W, "liquidity") if w["fn"] is fn]
        ok = ws and all(is_param(pv._rvalue(w["rv"], w["block"], w["stmt"], 0), "liquidity") for w in ws)
        run.check("R1", "stores-param@" + p.rsplit("::", 1)[-1], ok, "%s does not store its liquidity parameter" % p, loc=fn.loc(), detail="liquidity := param liquidity")
    # callers pass the managers' results
    for (cf, bi) in facts.callers().get(W + "::update_rewards_and_liquidity", []):
        pv = prov_of(cf)
        t = cf.blocks[bi]["t"]
        a = pv.operand(t["a"][2], bi, len(cf.blocks[bi]["s"]))
        ok = is_field(a, "whirlpool_liquidity") and cf.path == "manager::liquidity_manager::sync_modify_liquidity_values"
        run.check("R1", "caller@update_rewards_and_liquidity:" + cf.path, ok, "update_rewards_and_liquidity receives %s in %s, expected ModifyLiquidityUpdate.whirlpool_liquidity" % (sh(a, 60), cf.path),
                  loc=cf.loc(t["l"]), detail="liquidity := update.whirlpool_liquidity")
    for (cf, bi) in facts.callers().get(W + "::update_after_swap", []):
        pv = prov_of(cf)
        t = cf.blocks[bi]["t"]
        a = pv.operand(t["a"][1], bi, len(cf.blocks[bi]["s"]))
        ok = all(is_field(x, "next_liquidity") for x in leaves(a))
        run.check("R1", "caller@update_after_swap:" + cf.path, ok, "update_after_swap receives liquidity %s in %s, expected PostSwapUpdate.next_liquidity" % (sh(a, 60), cf.path),
                  loc=cf.loc(t["l"]), detail="liquidity := swap_update.next_liquidity")
    # who constructs the update records
    allowed_tu = {"manager::tick_manager::next_tick_modify_liquidity_update", PM + "pino_next_tick_modify_liquidity_update",
                  "<state::tick::TickUpdate as std::convert::From<state::tick::Tick>>::from", "<state::tick::TickUpdate as std::default::Default>::default",
                  "<state::tick::TickUpdate as std::clone::Clone>::clone",
                  # the crossing keeps net / gross / initialized of the tick (C07.R2 decides what it writes), as a copy or a literal
                  "manager::tick_manager::next_tick_cross_update"}
    nc = facts.fn("manager::tick_manager::next_tick_cross_update")
    if nc is not None:
        for w in writes.struct_writes(facts, nc, prov_of(nc), "state::tick::TickUpdate"):
            if w["field"] in ("liquidity_net", "liquidity_gross", "initialized"):
                v = strip(w["val"])
                run.check("R1", "crossing-keeps:" + w["field"], is_field(v, w["field"]) and is_param(v[1], "tick"),
                          "next_tick_cross_update writes %s := %s; a crossing must leave it as the tick has it" % (w["field"], sh(v, 60)), loc=nc.loc(w["line"]), detail="unchanged copy")
    cons = {c["fn"].path for c in writes.constructions(facts, "state::tick::TickUpdate")}
    extra = {c for c in cons if c not in allowed_tu}
    run.check("R1", "constructors:TickUpdate", not extra and cons, "TickUpdate values are built outside the tick managers: %s" % sorted(extra), detail="%d construction sites" % len(cons))
    cons = {c["fn"].path for c in writes.constructions(facts, "manager::liquidity_manager::ModifyLiquidityUpdate")}
    run.check("R1", "constructors:ModifyLiquidityUpdate", cons == {"manager::liquidity_manager::_calculate_modify_liquidity"},
              "ModifyLiquidityUpdate is built in %s" % sorted(cons), detail="only _calculate_modify_liquidity")
    cons = {c["fn"].path for c in writes.constructions(facts, PM + "PinoModifyLiquidityUpdate")}
    run.check("R1", "constructors:PinoModifyLiquidityUpdate", cons == {PM + "_pino_calculate_modify_liquidity"},
              "PinoModifyLiquidityUpdate is built in %s" % sorted(cons), detail="only _pino_calculate_modify_liquidity")


def R2_one_delta(run):
    run.title("R2", "_calculate_modify_liquidity (both implementations): the same liquidity_delta goes to the pool-liquidity update, the lower tick "
                    "(its own tick, index, is_upper=false), the upper tick (is_upper=true) and the position; argument names match parameter names")
    facts = run.facts
    for path, pre in (("manager::liquidity_manager::_calculate_modify_liquidity", ""), (PM + "_pino_calculate_modify_liquidity", "pino_")):
        fn = facts.need_fn(path)
        run.touch(fn)
        short = path.rsplit("::", 1)[-1]
        found = {}
        for (bi, t, args) in calls_to(fn, lambda p: True):
            p = callee_path(t)
            last = p.rsplit("::", 1)[-1]
            if last.startswith("pino_"):
                last = last[5:]
            mm = argname_mismatches(facts, fn, bi, t, args)
            if last in ("next_whirlpool_liquidity", "next_tick_modify_liquidity_update", "next_position_modify_liquidity_update", "next_fee_growths_inside",
                        "next_reward_growths_inside", "calculate_modify_tick_array"):
                run.check("R2", "argnames:%s@%s:l%d" % (last, short, t["l"] - fn.line), not mm, "%s in %s: %s" % (last, path, "; ".join(mm)), loc=fn.loc(t["l"]),
                          detail="argument names agree with %s's parameters" % last)
            if last == "add_liquidity_delta" and arg_name(args[0]) == "liquidity" and mentions(args[0], lambda s_: s_[0] == "param" and s_[1] == "whirlpool"):
                # the pool's own update (next_whirlpool_liquidity is read spliced in; its range test is decided by R4)
                found["pool"] = args
            elif last == "next_tick_modify_liquidity_update":
                is_upper = const_val(args[7])
                found["upper" if is_upper == 1 else "lower" if is_upper == 0 else "?"] = args
            elif last == "next_position_modify_liquidity_update":
                found["position"] = args
        ok = set(found) == {"pool", "lower", "upper", "position"}
        run.check("R2", "four-sites@" + short, ok, "%s does not update pool, lower tick, upper tick and position exactly once each (found %s)" % (path, sorted(found)), loc=fn.loc(),
                  detail="pool, lower (is_upper=false), upper (is_upper=true), position")
        if not ok:
            continue
        d = [found["pool"][1], found["lower"][6], found["upper"][6], found["position"][1]]
        run.check("R2", "same-delta@" + short, all(is_param(x, "liquidity_delta") for x in d), "the four updates do not all receive liquidity_delta: %s" % [sh(x, 40) for x in d],
                  loc=fn.loc(), detail="liquidity_delta x4")
        lo, up = found["lower"], found["upper"]
        def index_of(x, name):
            """The parameter of that name, or the position's own bound read in place (position.tick_lower_index / its getter)."""
            x = strip(x)
            if is_param(x, name):
                return True
            if x[0] == "field" and x[2] == name:
                return is_param(strip(x[1]), "position")
            return x[0] == "call" and x[1].rsplit("::", 1)[-1] == name and len(x[2]) == 1 and is_param(strip(x[2][0]), "position")
        ok = is_param(lo[0], "tick_lower") and index_of(lo[1], "tick_lower_index") and is_param(up[0], "tick_upper") and index_of(up[1], "tick_upper_index")
        run.check("R2", "tick-sides@" + short, ok, "lower/upper tick updates are not given (tick_lower, tick_lower_index) / (tick_upper, tick_upper_index): %s / %s" % (
            [sh(x, 30) for x in lo[:2]], [sh(x, 30) for x in up[:2]]), loc=fn.loc(), detail="lower: (tick_lower, tick_lower_index, false); upper: (tick_upper, tick_upper_index, true)")


def R3_tick_polarity(run):
    run.title("R3", "next_tick_modify_liquidity_update (both): is_upper => net - delta, else net + delta; gross via add_liquidity_delta; gross == 0 => "
                    "default (uninitialised) update; delta == 0 => unchanged; otherwise initialized = true")
    facts = run.facts
    for path in ("manager::tick_manager::next_tick_modify_liquidity_update", PM + "pino_next_tick_modify_liquidity_update"):
        fn = facts.need_fn(path)
        run.touch(fn)
        short = path.rsplit("::", 1)[-1]
        for up in (False, True):
            ev = preach.call_events(facts, fn, {"is_upper_tick": up}, lambda p: p.endswith("::checked_sub") or p.endswith("::checked_add"), depth=0)
            got = {p.rsplit("::", 1)[-1] for p, _ in ev}
            want = "checked_sub" if up else "checked_add"
            run.check("R3", "net[%s,is_upper=%d]" % (short, up), got == {want}, "%s: liquidity_net must change by %s for is_upper_tick=%s, found %s" % (path, want, up, sorted(got)),
                      loc=fn.loc(), detail=want)
        pv = prov_of(fn)
        for (bi, t, args) in calls_to(fn, lambda p: p.endswith("::checked_sub") or p.endswith("::checked_add")):
            ok = arg_name(args[0]) == "liquidity_net" and is_param(args[1], "liquidity_delta")
            run.check("R3", "net-operands[%s,l%d]" % (short, t["l"] - fn.line), ok, "%s: net update operands are (%s, %s), expected (tick.liquidity_net, liquidity_delta)" % (path, sh(args[0], 40), sh(args[1], 40)),
                      loc=fn.loc(t["l"]), detail="(tick.liquidity_net, liquidity_delta)")
        g = calls_to(fn, ends("add_liquidity_delta"))
        ok = len(g) == 1 and arg_name(g[0][2][0]) == "liquidity_gross" and is_param(g[0][2][1], "liquidity_delta")
        run.check("R3", "gross[%s]" % short, ok, "%s: gross liquidity is not add_liquidity_delta(tick.liquidity_gross, liquidity_delta)" % path, loc=fn.loc(), detail="add_liquidity_delta(gross, delta)")
        # returns
        rets = []
        for bi, bb in enumerate(fn.blocks):
            if bb["t"]["k"] == "ret":
                rets = leaves(pv.local(0, bi, len(bb["s"])))
        built = [r for r in rets if r[0] == "agg" and r[2] == "Ok" and strip(dict(r[3])["0"])[0] == "agg" and strip(dict(r[3])["0"])[1].endswith("TickUpdate")
                 and const_val(dict(strip(dict(r[3])["0"])[3]).get("initialized")) == 1]
        run.check("R3", "initialized-true[%s]" % short, len(built) == 1, "%s: the non-empty update does not set initialized = true exactly once" % path, loc=fn.loc(), detail="TickUpdate{initialized: true, ..}")
        if built:
            f = dict(strip(dict(built[0][3])["0"])[3])
            ok = is_call(f["liquidity_gross"], "add_liquidity_delta") and all(mentions(x, lambda s: s[0] == "call" and s[1].endswith(("checked_add", "checked_sub"))) for x in leaves(f["liquidity_net"]))
            run.check("R3", "update-fields[%s]" % short, ok, "%s: the update's net/gross are not the computed values" % path, loc=fn.loc(), detail="net, gross from the computed values")
        # guards
        zero_delta = zero_gross = False
        for at in A.atoms(fn):
            c = at.cond()
            if not c or c[0] not in ("Eq", "Ne"):
                continue
            for (x, y) in ((c[1], c[2]), (c[2], c[1])):
                if const_val(y) == 0 and is_param(x, "liquidity_delta"):
                    zero_delta = True
                if const_val(y) == 0 and is_call(x, "add_liquidity_delta"):
                    tgt = at.true_targets[0] if c[0] == "Eq" else at.false_targets[0]
                    # that side returns the default update: no net computation reachable
                    r = cfg.reach(fn, tgt)
                    calls = [b for b in r if fn.blocks[b]["t"]["k"] == "call" and (callee_path(fn.blocks[b]["t"]) or "").endswith(("checked_add", "checked_sub"))]
                    # ... and what it returns is the default value, not a copy of the stored tick
                    other = at.false_targets[0] if c[0] == "Eq" else at.true_targets[0]
                    excl = r - cfg.reach(fn, other)
                    pva = prov_of(fn)
                    vals = []
                    for d_ in pva.defs.get(0, []):
                        if d_[0] in excl and d_[2] is None:
                            l_ = strip(pva._site(d_, 0))
                            if l_[0] == "agg" and l_[2] == "Ok":
                                vals.append(strip(dict(l_[3])["0"]))
                    is_default = lambda v: (v[0] == "call" and v[1].endswith("::default") and not v[2]) or \
                        (v[0] == "agg" and all(const_val(x) == 0 or (strip(x)[0] in ("array", "repeat")) for _, x in v[3]))
                    zero_gross = not calls and len(vals) == 1 and is_default(vals[0])
        run.check("R3", "delta-zero-noop[%s]" % short, zero_delta, "%s: liquidity_delta == 0 is no longer a no-op branch" % path, loc=fn.loc(), detail="delta == 0 => unchanged")
        run.check("R3", "gross-zero-deinit[%s]" % short, zero_gross, "%s: gross == 0 does not return the default (uninitialised) update" % path, loc=fn.loc(), detail="gross == 0 => TickUpdate::default()")


def _result_field(fn, pv, name):
    """Values of field `name` of the ModifyLiquidityUpdate-like aggregate(s) the function returns."""
    out = []
    for bi, bb in enumerate(fn.blocks):
        if bb["t"]["k"] == "ret":
            for l in leaves(pv.local(0, bi, len(bb["s"]))):
                for s_ in subterms(l):
                    if s_[0] == "agg" and name in dict(s_[3]):
                        out.append(dict(s_[3])[name])
    return out


def R4_in_range(run):
    run.title("R4", "the pool's liquidity in _calculate_modify_liquidity (both; next_whirlpool_liquidity read spliced in): it changes iff the position's "
                    "tick_lower_index <= tick_current_index < tick_upper_index, by add_liquidity_delta(whirlpool.liquidity, delta)")
    facts = run.facts
    for path, short in (("manager::liquidity_manager::_calculate_modify_liquidity", "next_whirlpool_liquidity"), (PM + "_pino_calculate_modify_liquidity", "pino_next_whirlpool_liquidity")):
        fn = facts.need_fn(path)
        run.touch(fn)
        conds = set()
        in_call = [c_ for c_ in calls_to(fn, ends("add_liquidity_delta")) if arg_name(c_[2][0]) == "liquidity" and mentions(c_[2][0], lambda s_: s_[0] == "param" and s_[1] == "whirlpool")]
        for at in A.atoms(fn):
            cj = at.conjuncts()    # a comparison, or the two of `(lower..upper).contains(&current)`
            for (op, a, b) in cj:
                for (o, x, y) in ((op, a, b), (A.SWAP[op], b, a)):
                    if arg_name(x) == "tick_current_index" and arg_name(y) in ("tick_upper_index", "tick_lower_index") and mentions(y, lambda s_: s_[0] == "param" and s_[1] == "position"):
                        # which side leads to the add call (and only that side)
                        tr_ = cfg.reach(fn, at.true_targets[0], cut_blocks=[at.block])
                        fr_ = cfg.reach(fn, at.false_targets[0], cut_blocks=[at.block])
                        if in_call and (in_call[0][0] in tr_) != (in_call[0][0] in fr_):
                            if len(cj) > 1 and in_call[0][0] not in tr_:
                                conds.add("not (%s)" % show(at.term)[:60])    # the add on the outside of a range test
                                continue
                            oo = o if in_call[0][0] in tr_ else A.NEG[o]
                            conds.add("current %s %s" % (oo, arg_name(y)))
        want = {"current Lt tick_upper_index", "current Ge tick_lower_index"}
        run.check("R4", "range-test@" + short, conds == want, "%s adds the delta when %s, expected exactly %s" % (path, sorted(conds), sorted(want)), loc=fn.loc(),
                  detail="lower <= current < upper")
        ok = len(in_call) == 1 and arg_name(in_call[0][2][0]) == "liquidity" and is_param(in_call[0][2][1], "liquidity_delta")
        run.check("R4", "in-range-value@" + short, ok, "%s: in-range result is not add_liquidity_delta(whirlpool.liquidity, liquidity_delta)" % path, loc=fn.loc(),
                  detail="add_liquidity_delta(whirlpool.liquidity, delta)")
        # the value handed on as the pool's next liquidity: the in-range sum or, out of range, the unchanged pool liquidity
        pv = prov_of(fn)
        nxt = []
        for r_ in _result_field(fn, pv, "whirlpool_liquidity"):
            nxt.extend(leaves(r_))
        other = [r for r in nxt if not mentions(r, lambda s: s[0] == "call" and s[1].endswith("add_liquidity_delta"))]
        ok = len(nxt) >= 2 and len(other) == 1 and arg_name(other[0]) == "liquidity" and mentions(other[0], lambda s: s[0] == "param" and s[1] == "whirlpool")
        run.check("R4", "out-of-range-value@" + short, ok, "%s: out-of-range result is not the unchanged pool liquidity (%s)" % (path, [sh(x, 40) for x in nxt]), loc=fn.loc(), detail="whirlpool.liquidity unchanged")


def R5_crossing(run):
    run.title("R5", "calculate_update adds -net when a_to_b else +net to the liquidity; in the swap loop the new liquidity is adopted and the tick "
                    "updated only when the step ended exactly on the next tick and that tick is initialised")
    facts = run.facts
    # (the private helper calculate_update is always analysed inlined into the swap loop: analysis/canon.py ALWAYS_INLINE)
    fn = facts.need_fn(SL.SWAP)
    run.touch(fn)
    for ab in (False, True):
        mm = SL.SwapModel(facts, {"a_to_b": ab})
        cs = calls_to(fn, ends("add_liquidity_delta"), ctx={"a_to_b": ab}, cut=True)
        ok = False
        found = None
        if len(cs) == 1:
            a0, a1 = cs[0][2]
            s = strip(a1)
            if s[0] == "var":
                # a named temporary assigned once per direction: take the definition that is feasible in this direction
                ds = [t for (_, _, t) in mm.pv.var_defs(s[2])]
                if len(ds) == 1:
                    s = strip(ds[0])
            found = sh(s, 80)
            if ab:
                ok = s[0] == "un" and s[1] == "Neg" and arg_name(s[2]) == "liquidity_net"
            else:
                ok = arg_name(s) == "liquidity_net" and s[0] == "field"
            ok = ok and mm.is_var(a0, "liquidity")
        run.check("R5", "signed-net[a_to_b=%d]" % ab, ok, "crossing with a_to_b=%s adds %s, expected %stick.liquidity_net" % (ab, found, "-" if ab else "+"), loc=fn.loc(),
                  detail="liquidity %s tick.liquidity_net" % ("-" if ab else "+"))
    sw = facts.need_fn(SL.SWAP)
    m = SL.SwapModel(facts, {})
    ups = [(b, l, t) for (b, l, t) in m.updates("liquidity") if not is_field(t, "liquidity")]
    ok = len(ups) == 1 and mentions(ups[0][2], lambda s: s[0] == "call" and s[1].endswith("add_liquidity_delta"))
    run.check("R5", "liquidity-update", ok, "the loop's liquidity is updated by something other than add_liquidity_delta(liquidity, +-tick.liquidity_net)?", loc=sw.loc(), detail="liquidity := add_liquidity_delta(liquidity, signed net)?")
    if ok:
        ub = ups[0][0]
        # guards: next_price == next_tick_sqrt_price, and next_tick_initialized
        g_price = g_init = False
        for at in A.atoms(sw, {}, cut=True):
            c = at.cond()
            s = show(at.term)
            if c and c[0] in ("Eq", "Ne") and "next_price" in s and "sqrt_price_from_tick_index" in s:
                eq_t = at.true_targets[0] if c[0] == "Eq" else at.false_targets[0]
                ne_t = at.false_targets[0] if c[0] == "Eq" else at.true_targets[0]
                if ub in cfg.reach(sw, eq_t) and not (ub in cfg.reach(sw, ne_t, cut_blocks=[at.block])):
                    g_price = True
            # the tick's `initialized` flag: through `get_tick(..).map_or_else(.., |t| (Some(t), t.initialized))` or read directly
            # from the tick that `get_tick(..)` returned
            if c is None and "get_tick" in s and ("map_or_else" in s or "initialized" in s):
                t_t = at.true_targets[0]
                f_t = at.false_targets[0]
                if ub in cfg.reach(sw, t_t) and ub not in cfg.reach(sw, f_t, cut_blocks=[at.block]):
                    g_init = True
        run.check("R5", "cross-only-at-tick", g_price, "liquidity is changed although the step did not end exactly at the next tick's price", loc=sw.loc(), detail="next_price == next_tick_sqrt_price")
        run.check("R5", "cross-only-initialized", g_init, "liquidity is changed when crossing an uninitialised tick", loc=sw.loc(), detail="next_tick_initialized")
        # ... and on nothing else: once the step is computed, exactly those two tests decide whether the tick is crossed (a crossing
        # made to depend on, say, the amount left would leave a tick reached with an exhausted amount uncrossed)
        cs_ = calls_to(sw, ends("swap_math::compute_swap"), ctx={}, cut=True)
        if len(cs_) == 1:
            csb = cs_[0][0]
            deciders = []
            for at in A.atoms(sw, {}, cut=True):
                if not cfg.dominates(sw, csb, at.block) or at.block == csb:
                    continue
                tr = set().union(*[cfg.reach(sw, b_, cut_blocks=[at.block, csb]) for b_ in at.true_targets]) if at.true_targets else set()
                fr = set().union(*[cfg.reach(sw, b_, cut_blocks=[at.block, csb]) for b_ in at.false_targets]) if at.false_targets else set()
                if (ub in tr) != (ub in fr):
                    deciders.append(at)
            run.check("R5", "cross-on-nothing-else", len(deciders) == 2, "whether the reached tick is crossed depends on %d tests after the step computation (%s); expected exactly two: "
                      "the step ended at the tick's price, the tick is initialised" % (len(deciders), "; ".join(at.describe()[:70] for at in deciders)), loc=sw.loc(), detail="2 deciding tests")
        else:
            run.missing("R5", "cross-on-nothing-else", "swap() calls compute_swap %d times" % len(cs_), loc=sw.loc())
        # update_tick in the same guarded region with the computed update
        ut = calls_to(sw, ends("SwapTickSequence::<'a>::update_tick"), ctx={}, cut=True)
        ok = len(ut) == 1 and cfg.dominates(sw, ub, ut[0][0]) or (len(ut) == 1 and cfg.dominates(sw, ut[0][0], ub))
        if len(ut) == 1:
            a = ut[0][2]
            ok = ok and mentions(a[4], lambda s: s[0] == "call" and s[1].endswith("next_tick_cross_update"))
        run.check("R5", "tick-updated-with-cross", ok, "the crossed tick is not updated with next_tick_cross_update(..) together with the liquidity change", loc=sw.loc(), detail="update_tick(.., next_tick_cross_update(..)?)")


def R6_sync(run):
    run.title("R6", "sync_modify_liquidity_values (both): position gets position_update; lower tick update goes to tick_lower_index, upper to tick_upper_index "
                    "(also when both ticks share one array); pool gets the computed liquidity")
    facts = run.facts
    for path in ("manager::liquidity_manager::sync_modify_liquidity_values", PM + "pino_sync_modify_liquidity_values"):
        fn = facts.need_fn(path)
        run.touch(fn)
        short = path.rsplit("::", 1)[-1]
        uts = calls_to(fn, lambda p: p.endswith("::update_tick"))
        pairs = set()
        arrays = set()
        from analysis.siblings import alts
        for (bi, t, args) in uts:
            pairs.add((arg_name(args[1]), arg_name(args[3])))
            # the receiver may be chosen first and the call made once (`match upper { Some(u) => u, None => lower }.update_tick(..)`)
            for rcv in alts(args[0]):
                arrays.add((arg_name(rcv) or sh(rcv, 30), arg_name(args[1])))
        want = {("tick_lower_index", "tick_lower_update"), ("tick_upper_index", "tick_upper_update")}
        run.check("R6", "tick-update-pairing@" + short, pairs == want and len(uts) in (2, 3), "%s applies (index, update) pairs %s over %d calls, expected %s" % (path, sorted(pairs, key=str), len(uts), sorted(want)),
                  loc=fn.loc(), detail="(lower index, lower update), (upper index, upper update), shared-array case")
        ok = ("tick_array_lower", "tick_lower_index") in arrays and ("tick_array_lower", "tick_upper_index") in arrays and \
             any(a[1] == "tick_upper_index" and a[0] != "tick_array_lower" for a in arrays)
        run.check("R6", "arrays@" + short, ok, "%s: tick updates are not applied to (lower array, lower), (upper array | lower array when shared, upper): %s" % (path, sorted(arrays, key=str)), loc=fn.loc(),
                  detail=str(sorted(arrays, key=str)))
        pu = calls_to(fn, lambda p: p.endswith("Position::update") or p.endswith("MemoryMappedPosition::update"))
        ok = len(pu) == 1 and arg_name(pu[0][2][1]) == "position_update" and is_param(pu[0][2][0], "position")
        run.check("R6", "position@" + short, ok, "%s does not apply modify_liquidity_update.position_update to the position" % path, loc=fn.loc(), detail="position.update(update.position_update)")
        wu = calls_to(fn, lambda p: p.endswith("update_rewards_and_liquidity") or p.endswith("update_liquidity_and_reward_growth_global"))
        ok = len(wu) == 1 and any(arg_name(a) == "whirlpool_liquidity" for a in wu[0][2]) and is_param(wu[0][2][0], "whirlpool")
        mm = argname_mismatches(facts, fn, wu[0][0], wu[0][1], wu[0][2]) if wu else ["missing"]
        run.check("R6", "pool@" + short, ok and not mm, "%s does not store update.whirlpool_liquidity into the pool (%s)" % (path, "; ".join(mm)), loc=fn.loc(), detail="pool liquidity := update.whirlpool_liquidity")
        # ... each of them on every successful path (an early `return Ok(())` after part of the work leaves pool, ticks and position disagreeing)
        groups = {"pool": [c[0] for c in wu], "position": [c[0] for c in pu],
                  "lower-tick": [bi for (bi, t, a_) in uts if arg_name(a_[1]) == "tick_lower_index"], "upper-tick": [bi for (bi, t, a_) in uts if arg_name(a_[1]) == "tick_upper_index"]}
        skipped = sorted(k for k, bs in groups.items() if bs and cfg.success_reach(fn, 0, cut_blocks=bs))
        run.check("R6", "every-success-path@" + short, not skipped and all(groups.values()), "%s can return successfully without the %s update" % (path, ", ".join(skipped) or "complete"), loc=fn.loc(),
                  detail="pool, position, lower-tick and upper-tick updates cut every path to a successful return")
        # all results are propagated
        for (bi, t, args) in uts:
            mp = cfg.result_ok_edge(fn, bi)
            run.check("R6", "update_tick-result@%s:l%d" % (short, t["l"] - fn.line), mp is not None, "%s drops the result of update_tick" % path, loc=fn.loc(t["l"]), detail="result branched on")


def R7_cursor(run):
    run.title("R7", "the pool's tick cursor stays on the side of every crossed tick that its liquidity corresponds to: the swap loop's cursor rules (C10.R5 instances: next - 1 iff a_to_b "
                    "on reaching a tick, tick of the price only when the price moved, array hand-over)")
    from rules.common import RuleProxy
    from rules import C10
    C10.R5_loop_cursor(RuleProxy(run, "R7"))
    # ... and positions and swaps agree on which array holds a tick: arrays only start on the one grid (C10.R6 instances)
    C10.R6_array_grid(RuleProxy(run, "R7"))


def R8_cross_checks(run):
    run.title("R8", 'what a swap traverses and what a position books agree: array hand-over and sentinels of the sequence search (C10.R4 instances) and the range validator of both packagings (C18.R7 instances: lower < upper, usable ticks, full-range-only pools)')
    from rules.common import RuleProxy
    from rules import C10, C18
    C10.R4_sequence(RuleProxy(run, 'R8'))
    C18.R7_range_validator(RuleProxy(run, 'R8'))


def R9_signed_addition(run):
    run.title("R9", "add_liquidity_delta(l, d): d == 0 => l; d > 0 => l checked_add (d as u128), None => LiquidityOverflow; d < 0 => l checked_sub |d| "
                    "(unsigned_abs, so i128::MIN is 2^127 and not a wrapped negative), None => LiquidityUnderflow")
    facts = run.facts
    fn = facts.need_fn("math::liquidity_math::add_liquidity_delta")
    run.touch(fn)
    ats = A.atoms(fn)
    zero = pos = None
    for at in ats:
        c = at.cond()
        if not c:
            continue
        for (o, x, y) in ((c[0], c[1], c[2]), (A.SWAP[c[0]], c[2], c[1])):
            if is_param(x, "delta") and const_val(y) == 0:
                if o in ("Eq", "Ne"):
                    zero = (at, o == "Eq")
                elif o in ("Gt", "Le", "Lt", "Ge"):
                    pos = (at, o)
    # (the zero test is optional: adding `0 as u128` checked returns the liquidity unchanged as well)
    ok = pos is not None and ((zero is not None and len(ats) == 2) or (zero is None and len(ats) == 1 and pos[1] in ("Lt", "Ge")))
    run.check("R9", "tests", ok, "add_liquidity_delta does not test exactly the sign of delta (and optionally delta == 0) (%s)" % [at.describe()[:50] for at in ats], loc=fn.loc(), detail="[delta == 0;] sign of delta")
    if not ok:
        return

    def rets(assumptions):
        pv = prov_assuming(fn, assumptions)
        out = []
        for bi, bb in enumerate(fn.blocks):
            if bb["t"]["k"] == "ret" and pv.flow.state_in[bi] is not None:
                out.extend(leaves(pv.local(0, bi, len(bb["s"]))))
        return out
    if zero is not None:
        z_true = (zero[0], zero[1])
        z_false = [(zero[0], not zero[1])]
        r0 = rets([z_true])
        ok0 = len(r0) == 1 and r0[0][0] == "agg" and r0[0][2] == "Ok" and is_param(dict(r0[0][3])["0"], "liquidity")
        run.check("R9", "zero", ok0, "add_liquidity_delta(l, 0) returns %s, expected Ok(l)" % [sh(x, 40) for x in r0], loc=fn.loc(), detail="Ok(liquidity)")
    else:
        z_false = []
        run.ok("R9", "zero", detail="a zero delta takes the addition: liquidity.checked_add(0) is liquidity")
    at, o = pos
    # truth value of the atom under which delta > 0 (given delta != 0: Ge is Gt, Le is Lt)
    pos_true = {"Gt": True, "Ge": True, "Lt": False, "Le": False}[o]
    for sign, truth, op, conv, code in (("positive", pos_true, "checked_add", "cast", "LiquidityOverflow"), ("negative", not pos_true, "checked_sub", "unsigned_abs", "LiquidityUnderflow")):
        rs = rets(z_false + [(at, truth)])
        ok = len(rs) == 1
        why = [sh(x, 80) for x in rs]
        if ok:
            r = strip(rs[0])
            ok = r[0] == "call" and r[1].endswith("ok_or") and is_call(r[2][0], op) and code in show(r[2][1], True)
            if ok:
                a_ = strip(r[2][0])[2]
                amt = a_[1]
                if conv == "cast":
                    okc = amt[0] == "cast" and is_param(strip(amt), "delta") and amt[2] == "u128"
                else:
                    okc = is_call(amt, "unsigned_abs") and is_param(strip(amt)[2][0], "delta")
                ok = is_param(a_[0], "liquidity") and okc
        run.check("R9", sign, ok, "add_liquidity_delta with a %s delta returns %s, expected liquidity.%s(%s).ok_or(%s)" % (sign, why, op, "delta as u128" if conv == "cast" else "delta.unsigned_abs()", code),
                  loc=fn.loc(), detail="liquidity.%s(%s).ok_or(%s)" % (op, "delta as u128" if conv == "cast" else "|delta|", code))


RULES = [R1_writers, R2_one_delta, R3_tick_polarity, R4_in_range, R5_crossing, R6_sync, R7_cursor, R8_cross_checks, R9_signed_addition]
