"""C11 Rewards accrue at the set emission rate, pro rata to in-range liquidity.

Decided: the global accrual function (both implementations) rejects a timestamp earlier
than the last update first, is a no-op for zero liquidity / zero elapsed time, skips
uninitialised rewards and adds floor(dt * emissions / liquidity) (overflow -> 0) with a
wrapping add; collecting pays min(owed, vault balance) from the vault recorded for that
reward index and stores the remainder; changing the emission rate requires a day of
emissions in that vault, settles accrual at the old rate first and bounds the index;
the wrap discipline of reward growth values; reward growth inside a range per reward
index (both implementations: the three-way selection per bound, one index everywhere,
uninitialised rewards skipped); tick crossings in a swap use the growth accrued up to it.
Also decided: rewards are credited on the liquidity held before the change (C07.R5 instances re-decided
here);
Also decided: no successful return of the accrual step avoids the timestamp test (the unchanged-growth early returns
included); the pool's reward write-back is unconditional in both packagings.
Not decided: accrued amounts versus the exact pro-rata share."""
from analysis import cfg, atoms as A, preach, writes, accounts as ACC
from analysis.ir import callee_path, AnchorMissing
from analysis.prov import prov_of, prov_assuming, strip, leaves, subterms, show
from analysis.match import is_param, is_field, is_call, const_val, sh, mentions, fail_conditions
from rules.common import calls_to, ends, arg_name, acc, acc_chain, as_min
from rules.C07 import wrap_discipline

PM = "pinocchio::ported::manager_liquidity_manager::"


def R1_global_accrual(run):
    run.title("R1", "next_whirlpool_reward_infos / pino twin: next < last => InvalidTimestamp before anything else; liquidity == 0 or next == last => "
                    "unchanged; growth += checked_mul_div(dt, emissions, liquidity).unwrap_or(0) via wrapping_add; uninitialised rewards skipped")
    facts = run.facts
    for path in ("manager::whirlpool_manager::next_whirlpool_reward_infos", PM + "pino_next_whirlpool_reward_growth_global"):
        fn = facts.need_fn(path)
        run.touch(fn)
        short = path.rsplit("::", 1)[-1]
        ts_at = None
        liq0 = same_ts = False
        for at in A.atoms(fn):
            for (op, a, b) in fail_conditions(at):
                for (o, x, y) in ((op, a, b), (A.SWAP[op], b, a)):
                    if o == "Lt" and is_param(x, "next_timestamp") and arg_name(y) == "reward_last_updated_timestamp" and "InvalidTimestamp" in (at.true_codes | at.false_codes):
                        ts_at = at
            c = at.cond()
            if c and c[0] in ("Eq", "Ne"):
                for (x, y) in ((c[1], c[2]), (c[2], c[1])):
                    if arg_name(x) == "liquidity" and const_val(y) == 0:
                        liq0 = at
                    if is_param(x, "next_timestamp") and arg_name(y) == "reward_last_updated_timestamp":
                        same_ts = at
        run.check("R1", "timestamp-monotone@" + short, ts_at is not None, "%s does not fail with InvalidTimestamp when next_timestamp < reward_last_updated_timestamp" % path, loc=fn.loc(),
                  detail="next < last => InvalidTimestamp")
        if ts_at is not None:
            others = [bi for bi, t in fn.calls() if (callee_path(t) or "").endswith(("checked_mul_div", "wrapping_add"))]
            ok = all(A.guarded_by(fn, ts_at, b) for b in others) and ts_at.block in (0, 1, 2, 3) or all(A.guarded_by(fn, ts_at, b) for b in others)
            run.check("R1", "timestamp-first@" + short, ok and others, "%s computes accrual before checking the timestamp" % path, loc=fn.loc(), detail="check dominates the accrual")
            # ... and before every way out: no successful return (the unchanged-growth early returns included) avoids the test, or an
            # earlier timestamp would be accepted and stored while the pool has no liquidity
            byp = cfg.success_reach(fn, 0, cut_blocks=[ts_at.block])
            run.check("R1", "timestamp-before-noop@" + short, not byp, "%s can return successfully without having compared next_timestamp with reward_last_updated_timestamp "
                      "(an early return runs before the InvalidTimestamp test)" % path, loc=fn.loc(), detail="every successful return passes the timestamp test")
        # no-op conditions: both must lead to a return without reaching checked_mul_div
        md = [bi for bi, t in fn.calls() if (callee_path(t) or "").endswith("checked_mul_div")]
        for name, at in (("zero-liquidity", liq0), ("same-timestamp", same_ts)):
            ok = False
            if at:
                c = at.cond()
                eq_t = at.true_targets[0] if c[0] == "Eq" else at.false_targets[0]
                r = cfg.reach(fn, eq_t)
                ok = bool(md) and not (set(md) & r)
            run.check("R1", "%s-noop@%s" % (name, short), ok, "%s: %s no longer returns the growth unchanged" % (path, name), loc=fn.loc(), detail=name + " => unchanged")
        cs = calls_to(fn, ends("checked_mul_div"))
        ok = len(cs) == 1
        if ok:
            a = cs[0][2]
            dt = strip(a[0])
            ok = dt[0] == "bin" and dt[1] == "Sub" and is_param(dt[2], "next_timestamp") and arg_name(dt[3]) == "reward_last_updated_timestamp" and \
                arg_name(a[1]) == "emissions_per_second_x64" and arg_name(a[2]) == "liquidity"
            ok = ok and cs[0][1]["f"]["p"] == "math::bit_math::checked_mul_div"
        run.check("R1", "delta-formula@" + short, ok, "%s: growth delta is not checked_mul_div(next - last, emissions_per_second_x64, liquidity) (floor)" % path, loc=fn.loc(),
                  detail="floor(dt * emissions / liquidity)")
        uo = calls_to(fn, lambda p: p.endswith("::unwrap_or"))
        ok = any(is_call(a[0], "checked_mul_div") and const_val(a[1]) == 0 for (_, _, a) in uo)
        run.check("R1", "overflow-drops@" + short, ok, "%s: an overflowing interval is not dropped to 0" % path, loc=fn.loc(), detail="unwrap_or(0)")
        wa = calls_to(fn, lambda p: p.endswith("::wrapping_add"))
        ok = len(wa) == 1 and mentions(wa[0][2][1], lambda s: s[0] == "call" and s[1].endswith("checked_mul_div"))
        run.check("R1", "wrapping-add@" + short, ok, "%s: growth is not advanced with wrapping_add(delta)" % path, loc=fn.loc(), detail="growth.wrapping_add(delta)")
        skip = any(("initialized" in show(at.term)) or ("emissions_per_second_x64" in show(at.term) and at.cond() and at.cond()[0] in ("Eq", "Ne")) for at in A.atoms(fn))
        run.check("R1", "skip-uninitialised@" + short, skip, "%s no longer skips uninitialised rewards" % path, loc=fn.loc(), detail="skip !initialized / emissions == 0")


def R2_collect(run):
    run.title("R2", "collect_reward (v1, v2): pays calculate_collect_reward(position.reward_infos[index], vault.amount).0 = min(owed, vault) from the vault "
                    "bound to whirlpool.reward_infos[index].vault and stores .1 = owed - paid as the new owed amount")
    facts = run.facts
    structs = ACC.load(facts)
    for mod, sname, xfer in (("instructions::collect_reward", "CollectReward", "transfer_from_vault_to_owner"),
                             ("instructions::v2::collect_reward", "CollectRewardV2", "transfer_from_vault_to_owner_v2")):
        calc = facts.need_fn(mod + "::calculate_collect_reward")
        run.touch(calc)
        at_ok = False
        for at in A.atoms(calc):
            c = at.cond()
            if c:
                for (o, x, y) in ((c[0], c[1], c[2]), (A.SWAP[c[0]], c[2], c[1])):
                    if o == "Gt" and arg_name(x) == "amount_owed" and is_param(y, "vault_amount"):
                        pv_t = prov_assuming(calc, [(at, True)])
                        pv_f = prov_assuming(calc, [(at, False)])
                        rt = rf = None
                        for bi, bb in enumerate(calc.blocks):
                            if bb["t"]["k"] == "ret":
                                rt = pv_t.local(0, bi, len(bb["s"]))
                                rf = pv_f.local(0, bi, len(bb["s"]))
                        if rt and rf and rt[0] == "tuple" and rf[0] == "tuple":
                            t0, t1 = strip(rt[1][0]), strip(rt[1][1])
                            f0, f1 = strip(rf[1][0]), strip(rf[1][1])
                            at_ok = is_param(t0, "vault_amount") and t1[0] == "bin" and t1[1] == "Sub" and arg_name(t1[2]) == "amount_owed" and is_param(t1[3], "vault_amount") \
                                and arg_name(f0) == "amount_owed" and const_val(f1) == 0
        if not at_ok:
            # the same pair written with a minimum: (owed.min(vault), owed - that)
            pvc = prov_of(calc)
            for bi, bb in enumerate(calc.blocks):
                if bb["t"]["k"] == "ret":
                    r = pvc.local(0, bi, len(bb["s"]))
                    if r[0] == "tuple" and len(r[1]) == 2:
                        m = as_min(r[1][0])
                        t1 = strip(r[1][1])
                        if m and t1[0] == "bin" and t1[1] == "Sub":
                            names = sorted([arg_name(m[0]) or "", arg_name(m[1]) or ""])
                            at_ok = names == ["amount_owed", "vault_amount"] and arg_name(t1[2]) == "amount_owed" and strip(t1[3]) == strip(r[1][0])
        run.check("R2", "min-formula@" + mod, at_ok, "%s::calculate_collect_reward is not (owed > vault) ? (vault, owed - vault) : (owed, 0)" % mod, loc=calc.loc(),
                  detail="owed > vault => (vault, owed - vault) else (owed, 0)")
        h = facts.need_fn(mod + "::handler")
        run.touch(h)
        cc = calls_to(h, lambda p: p == calc.path)
        ok = len(cc) == 1
        if ok:
            a = cc[0][2]
            pr = strip(a[0])
            ok = pr[0] == "index" and (acc_chain(pr[1]) or "").endswith("position.reward_infos") and mentions(pr[2], lambda s: s[0] == "param" and s[1] == "reward_index") and \
                acc_chain(a[1]) == "reward_vault.amount"
        run.check("R2", "inputs@" + mod, ok, "%s: calculate_collect_reward is not given (position.reward_infos[reward_index], reward_vault.amount)" % mod, loc=h.loc(),
                  detail="(position.reward_infos[index], reward_vault.amount)")
        tx = calls_to(h, ends(xfer))
        ok = len(tx) == 1
        if ok:
            a = tx[0][2]
            amt = strip(a[-1]) if not mod.startswith("instructions::v2") else None
            amts = [x for x in a if mentions(x, lambda s: s[0] == "call" and s[1].endswith("calculate_collect_reward"))]
            ok = len(amts) == 1 and strip(amts[0])[0] == "field" and strip(amts[0])[2] == "0" and any(acc(x) == "reward_vault" for x in a) and any(acc(x) == "reward_owner_account" for x in a)
        run.check("R2", "transfer@" + mod, ok, "%s does not transfer calculate_collect_reward(..).0 from reward_vault to reward_owner_account" % mod, loc=h.loc(),
                  detail="transfer(.0) reward_vault -> reward_owner_account")
        up = calls_to(h, ends("Position::update_reward_owed"))
        ok = len(up) == 1 and strip(up[0][2][2])[0] == "field" and strip(up[0][2][2])[2] == "1" and is_call(strip(up[0][2][2])[1], "calculate_collect_reward") and \
            mentions(up[0][2][1], lambda s: s[0] == "param" and s[1] == "reward_index")
        if not up:
            # the setter written in place: position.reward_infos[reward_index].amount_owed := calculate_collect_reward(..).1, on every
            # successful path
            pvh = prov_of(h)
            ws_ = [w for w in writes.field_stores(facts) if w["fn"] is h and w["field"] == "amount_owed" and w["last"] and w["kind"] == "assign"]
            ok = len(ws_) == 1
            if ok:
                w = ws_[0]
                st_ = h.blocks[w["block"]]["s"][w["stmt"]]
                v = strip(pvh._rvalue(w["rv"], w["block"], w["stmt"], 0))
                idx = [pvh.local(e["ix"], w["block"], w["stmt"]) for e in st_["p"]["p"] if isinstance(e, dict) and "ix" in e]
                base = pvh.local(st_["p"]["l"], w["block"], w["stmt"])
                ok = v[0] == "field" and v[2] == "1" and is_call(strip(v[1]), "calculate_collect_reward") and len(idx) == 1 and \
                    mentions(idx[0], lambda s: s[0] == "param" and s[1] == "reward_index") and acc(base) == "position" and \
                    any(isinstance(e, dict) and e.get("f") == "reward_infos" for e in st_["p"]["p"]) and not cfg.success_reach(h, 0, cut_blocks=[w["block"]])
        run.check("R2", "remainder-stored@" + mod, ok, "%s does not store calculate_collect_reward(..).1 as the reward's new owed amount at reward_index" % mod, loc=h.loc(),
                  detail="position.update_reward_owed(index, .1)")
        st = structs.get(mod + "::" + sname)
        f = st.field("reward_vault") if st else None
        ok = f is not None and f.values("address") == ["whirlpool.reward_infos[reward_indexasusize].vault"]
        run.check("R2", "vault-binding@" + sname, ok, "%s.reward_vault is not bound to whirlpool.reward_infos[reward_index].vault (%s)" % (sname, f.values("address") if f else None),
                  loc=st.loc("reward_vault") if st else None, detail="address = whirlpool.reward_infos[reward_index as usize].vault")
    # update_reward_owed writes reward_infos[index].amount_owed := amount
    fn = facts.fn("state::position::Position::update_reward_owed")
    if fn is None:
        run.ok("R2", "update_reward_owed", detail="setter written in place (decided by remainder-stored@ in both handlers)")
        return
    pv = prov_of(fn)
    ws = [w for w in writes.field_stores(facts) if w["fn"] is fn and w["last"]]
    ok = len(ws) == 1 and ws[0]["field"] == "amount_owed" and is_param(pv._rvalue(ws[0]["rv"], ws[0]["block"], ws[0]["stmt"], 0), "amount_owed")
    if ok:
        st = fn.blocks[ws[0]["block"]]["s"][ws[0]["stmt"]]
        idx = [pv.local(e["ix"], ws[0]["block"], ws[0]["stmt"]) for e in st["p"]["p"] if isinstance(e, dict) and "ix" in e]
        ok = len(idx) == 1 and is_param(idx[0], "index")
    run.check("R2", "update_reward_owed", ok, "Position::update_reward_owed does not store amount_owed at reward_infos[index]", loc=fn.loc(), detail="reward_infos[index].amount_owed := amount_owed")


def R3_set_emissions(run):
    run.title("R3", "set_reward_emissions (v1, v2): vault.amount < checked_mul_shift_right(86400, rate) => RewardVaultAmountInsufficient before the update; "
                    "update_emissions receives next_whirlpool_reward_infos(pool, now) (old rate settled first); index bound check")
    facts = run.facts
    structs = ACC.load(facts)
    for mod, sname in (("instructions::set_reward_emissions", "SetRewardEmissions"), ("instructions::v2::set_reward_emissions", "SetRewardEmissionsV2")):
        h = facts.need_fn(mod + "::handler")
        run.touch(h)
        ue = calls_to(h, ends("Whirlpool::update_emissions"))
        ok_guard = False
        for at in A.atoms(h):
            for (op, a, b) in fail_conditions(at):
                for (o, x, y) in ((op, a, b), (A.SWAP[op], b, a)):
                    if o == "Lt" and acc_chain(x) == "reward_vault.amount" and is_call(y, "checked_mul_shift_right") and "RewardVaultAmountInsufficient" in (at.true_codes | at.false_codes):
                        cm = strip(y)
                        if const_val(cm[2][0]) == 86400 and is_param(cm[2][1], "emissions_per_second_x64") and cm[1] == "math::bit_math::checked_mul_shift_right":
                            if ue and all(A.guarded_by(h, at, b) for (b, _, _) in ue):
                                ok_guard = True
        run.check("R3", "one-day-funded@" + mod, ok_guard, "%s: the update is not guarded by reward_vault.amount >= one day of emissions (86400 * rate >> 64)" % mod, loc=h.loc(),
                  detail="vault.amount < checked_mul_shift_right(86400, rate)? => RewardVaultAmountInsufficient")
        ok = len(ue) == 1
        if ok:
            a = ue[0][2]
            ri = strip(a[2])
            ok = is_call(ri, "next_whirlpool_reward_infos") and acc(strip(ri)[2][0]) == "whirlpool" and acc(a[0]) == "whirlpool" and \
                mentions(a[1], lambda s: s[0] == "param" and s[1] == "reward_index") and is_param(a[4], "emissions_per_second_x64")
            # same timestamp for settle and store
            ok = ok and strip(strip(ri)[2][1]) == strip(a[3])
        run.check("R3", "settle-first@" + mod, ok, "%s: update_emissions is not given (reward_index, next_whirlpool_reward_infos(whirlpool, now)?, now, new rate)" % mod, loc=h.loc(),
                  detail="update_emissions(index, next_whirlpool_reward_infos(pool, now)?, now, rate)")
        st = structs.get(mod + "::" + sname)
        f = st.field("reward_vault") if st else None
        ok = f is not None and f.values("address") == ["whirlpool.reward_infos[reward_indexasusize].vault"]
        run.check("R3", "vault-binding@" + sname, ok, "%s.reward_vault is not the vault of reward_index" % sname, loc=st.loc("reward_vault") if st else None,
                  detail="address = whirlpool.reward_infos[reward_index as usize].vault")
    fn = facts.need_fn("state::whirlpool::Whirlpool::update_emissions")
    run.touch(fn)
    ok = False
    ws = [w for w in writes.field_stores(facts) if w["fn"] is fn]
    for at in A.atoms(fn):
        for (op, a, b) in fail_conditions(at):
            for (o, x, y) in ((op, a, b), (A.SWAP[op], b, a)):
                if o == "Ge" and is_param(x, "index") and const_val(y) == 3 and "InvalidRewardIndex" in (at.true_codes | at.false_codes):
                    ok = all(A.guarded_by(fn, at, w["block"]) for w in ws)
    run.check("R3", "index-bound", ok, "Whirlpool::update_emissions does not reject index >= NUM_REWARDS before storing", loc=fn.loc(), detail="index >= 3 => InvalidRewardIndex")
    pv = prov_of(fn)
    es = [w for w in ws if w["field"] == "emissions_per_second_x64"]
    ok = len(es) == 1 and is_param(pv._rvalue(es[0]["rv"], es[0]["block"], es[0]["stmt"], 0), "emissions_per_second_x64")
    ur = calls_to(fn, ends("Whirlpool::update_rewards"))
    if not ur:
        # update_rewards written in place: the same two stores (recognised by what update_rewards itself stores)
        ur = [(mb, None, [recv, a_.get(1), a_.get(2)]) for (mp_, mb, recv, a_, _w) in writes.recognise_mutators(facts, fn)
              if mp_ == "state::whirlpool::Whirlpool::update_rewards" and a_.get(1) is not None and a_.get(2) is not None]
        if ur:
            # the settled infos are stored before the new rate: in one block, statement order decides
            sw_ = [w for w in ws if w["field"] == "reward_infos" and w["kind"] == "assign"]
            if es and sw_ and any((w["block"], w["stmt"]) > (es[0]["block"], es[0]["stmt"]) and w["block"] == es[0]["block"] for w in sw_):
                ur = []
    ok = ok and len(ur) == 1 and is_param(ur[0][2][1], "reward_infos") and is_param(ur[0][2][2], "timestamp") and es and cfg.dominates(fn, ur[0][0], es[0]["block"])
    run.check("R3", "store-order", ok, "update_emissions does not first store the settled reward infos and then the new rate at reward_infos[index]", loc=fn.loc(),
              detail="update_rewards(settled, ts); reward_infos[index].emissions := new rate")


def R4_wrap(run):
    run.title("R4", "reward growth values obey the wrap discipline (shared taint rule with C07.R1)")
    wrap_discipline(run, "R4", 30)


def R5_inside_and_crossing(run):
    run.title("R5", "next_reward_growths_inside (both): per reward i, below = global_i if lower uninitialised, global_i - outside_lower[i] if current < lower index, else outside_lower[i]; "
                    "above = 0 if upper uninitialised, outside_upper[i] if current < upper index, else global_i - outside_upper[i]; inside[i] = global_i - below - above (wrapping), same i "
                    "everywhere, uninitialised rewards skipped; tick crossings in a swap use the reward growth accrued up to that swap (C07.R2/R6 instances)")
    facts = run.facts
    PM = "pinocchio::ported::manager_liquidity_manager::"
    for path in ("manager::tick_manager::next_reward_growths_inside", PM + "pino_next_reward_growths_inside"):
        fn = facts.need_fn(path)
        run.touch(fn)
        short = path.rsplit("::", 1)[-1]
        ats = {}
        for at in A.atoms(fn):
            sterm = show(at.term)
            c = at.cond()
            if c is None and "initialized" in sterm and "reward_infos" not in sterm:
                which = "lower" if "tick_lower" in sterm else "upper" if "tick_upper" in sterm else None
                if which:
                    ats[which + ".init"] = at
            elif c:
                op, x0, y0 = c
                for (o, x, y) in ((op, x0, y0), (A.SWAP[op], y0, x0)):
                    if o in ("Lt", "Ge") and is_param(x, "tick_current_index") and strip(y)[0] == "param" and strip(y)[1] in ("tick_lower_index", "tick_upper_index"):
                        ats[strip(y)[1][5:10] + ".lt"] = (at, o)
        if set(ats) != {"lower.init", "upper.init", "lower.lt", "upper.lt"}:
            run.missing("R5", "atoms@" + short, "%s: expected the four tests (lower/upper initialised, current < lower/upper index), found %s" % (path, sorted(ats)), loc=fn.loc())
            continue
        skip = [at for at in A.atoms(fn) if "reward_infos" in show(at.term) and "initialized" in show(at.term)]
        run.check("R5", "skip-uninitialised@" + short, len(skip) == 1, "%s no longer skips uninitialised rewards" % path, loc=fn.loc(), detail="!reward_infos[i].initialized() => continue")
        # the store into the result array
        st = None
        for bi, bb in enumerate(fn.blocks):
            for si, x in enumerate(bb["s"]):
                # the result array: an indexed store into a plain local (the only one in these functions)
                if x["k"] == "=" and "p" in x["p"] and any(isinstance(e, dict) and "ix" in e for e in x["p"]["p"]) and x["p"]["p"][0] != "*" and x["p"]["l"] > fn.argc:
                    st = (bi, si, x)
        if st is None:
            run.missing("R5", "store@" + short, "no store to reward_growths_inside[i] in " + path, loc=fn.loc())
            continue

        def lt_assume(which, val):
            at, o = ats[which + ".lt"]
            return (at, val if o == "Lt" else (not val))

        def idx_of(t):
            """(kind, index term) of a per-reward operand."""
            t = strip(t)
            if t[0] == "field" and t[2] == "growth_global_x64" and strip(t[1])[0] == "index" and is_param(strip(t[1])[1], "reward_infos"):
                return "global", strip(strip(t[1])[2])
            if t[0] == "index" and is_param(t[1], "next_reward_growth_global"):
                return "global", strip(t[2])
            if t[0] == "index":
                base = strip(t[1])
                for which in ("lower", "upper"):
                    if (base[0] == "field" and base[2] == "reward_growths_outside" and is_param(base[1], "tick_" + which)) or \
                            (base[0] == "call" and base[1].endswith("reward_growths_outside") and is_param(base[2][0], "tick_" + which)):
                        return "outside_" + which, strip(t[2])
            if const_val(t) == 0:
                return "zero", None
            return "?" + sh(t, 40), None

        def wsub(t):
            t = strip(t)
            if t[0] == "call" and t[1].endswith("wrapping_sub") and len(t[2]) == 2:
                return t[2]
            return None

        def classify(t, which):
            k, ix = idx_of(t)
            if k in ("global", "zero"):
                return k, ix
            if k == "outside_" + which:
                return "outside", ix
            w = wsub(t)
            if w:
                k0, i0 = idx_of(w[0])
                k1, i1 = idx_of(w[1])
                if k0 == "global" and k1 == "outside_" + which and i0 == i1:
                    return "global-outside", i0
            return "?" + sh(t, 40), None
        lower_cases = [("uninit", [(ats["lower.init"], False)], "global"), ("below", [(ats["lower.init"], True), lt_assume("lower", True)], "global-outside"),
                       ("at-or-above", [(ats["lower.init"], True), lt_assume("lower", False)], "outside")]
        upper_cases = [("uninit", [(ats["upper.init"], False)], "zero"), ("below", [(ats["upper.init"], True), lt_assume("upper", True)], "outside"),
                       ("at-or-above", [(ats["upper.init"], True), lt_assume("upper", False)], "global-outside")]
        bi, si, x = st
        for (ln, la, lwant) in lower_cases:
            for (un, ua, uwant) in upper_cases:
                pv = prov_assuming(fn, la + ua)
                ok = pv.flow.state_in[bi] is not None
                got = "unreachable"
                if ok:
                    val = pv._rvalue(x["rv"], bi, si, 0)
                    didx = [strip(pv.local(e["ix"], bi, si)) for e in x["p"]["p"] if isinstance(e, dict) and "ix" in e]
                    w1 = wsub(val)
                    w0 = wsub(w1[0]) if w1 else None
                    ok = bool(w1 and w0)
                    if ok:
                        g, gi = idx_of(w0[0])
                        below, bix = classify(w0[1], "lower")
                        above, aix = classify(w1[1], "upper")
                        got = "%s - %s - %s" % (g, below, above)
                        same_ix = all(i is None or i == didx[0] for i in (gi, bix, aix)) and len(didx) == 1
                        ok = g == "global" and (below, above) == (lwant, uwant) and same_ix
                        if not same_ix:
                            got += " (mixed reward indices)"
                run.check("R5", "inside[lower=%s,upper=%s]@%s" % (ln, un, short), ok, "%s: with lower %s / upper %s relative to the current tick, inside[i] is %s; expected global - %s - %s with one index" %
                          (path, ln, un, got, lwant, uwant), loc=fn.loc(), detail="global_i - %s - %s" % (lwant, uwant))
    from rules.common import RuleProxy
    from rules import C07
    C07.R2_flip_on_cross(RuleProxy(run, "R5"))
    C07.R6_swap_growth_handoff(RuleProxy(run, "R5"))


def R6_cross_checks(run):
    run.title("R6", 'rewards are credited on the liquidity held *before* the change, floor-multiplied, per index (C07.R5 instances, both packagings)')
    from rules.common import RuleProxy
    from rules import C07
    C07.R5_credit(RuleProxy(run, 'R6'))


RULES = [R1_global_accrual, R2_collect, R3_set_emissions, R4_wrap, R5_inside_and_crossing, R6_cross_checks]
