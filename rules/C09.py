"""C09 Tick <-> sqrt-price conversion.

Decided (structure and constants only, nothing is executed): both ladder functions test
exactly the masks 2^0..2^18, each once and in order, each guarding one multiplication of the
running ratio by one literal (positive: mul_shift_96 = (a*b)>>96 over U256, final >>32;
negative: (ratio*lit)>>64), the dispatch is tick >= 0 => positive ladder, |tick| otherwise, and
MAX_TICK_INDEX < 2^19 so no bit is unrepresented; each of the 38 literals agrees with
2^96*1.0001^(2^k/2) resp. 2^64/1.0001^(2^k/2) to a relative 2^-31 (a literal outside that
band breaks the 2^-32 step tolerance by itself); the published bounds are what the ladders
fold to at +-MAX_TICK_INDEX (constant propagation of the extracted ladder at a constant
argument); the inverse's constants agree with their derivation (LOG_B_2_X32 = 2^32 *
log_sqrt(1.0001)(2) to 2^-26, margins cover the 14-bit truncation and keep the two candidate
ticks adjacent) and the final choice is price(tick_high) <= input => tick_high else tick_low.
Not decided: strict monotonicity over all 887 273 ticks, the per-step 2^-32 bound for all
ticks, the round trip and uniqueness for every price (they quantify over values; deciding
them means evaluating the functions)."""
from decimal import Decimal, getcontext
from analysis import cfg, atoms as A, poly as P
from analysis.ir import callee_path
from analysis.prov import Prov, prov_of, strip, leaves, subterms, show
from analysis.match import is_param, is_call, const_val, sh, mentions
from rules.common import calls_to, ends

TM = "math::tick_math::"
getcontext().prec = 140
BASE = Decimal("1.0001").sqrt()
NBITS = 19


def _const(t):
    t = strip(t)
    return t[1] if t[0] == "const" else None


def _ladder(run, name, tickterm, facts=None, tm=TM, R1="R1", tag=""):
    """Extract [(mask, literal)] from a ladder function; checks the shape. Returns (init_odd, init_even, steps, final_shift) or None."""
    facts = facts or run.facts
    fn = facts.need_fn(tm + name)
    name = tag + name
    run.touch(fn)
    pv = Prov(fn, cut="all")
    # the running product: the named local with the most definitions (its name does not matter)
    cands = sorted(((len([d for d in pv.defs.get(l, []) if d[2] is None]), l) for l in range(fn.argc + 1, len(fn.locals)) if fn.locals[l].get("n")), reverse=True)
    ratio = cands[0][1] if cands and cands[0][0] >= NBITS else None
    if ratio is None:
        run.missing(R1, "ladder-var@" + name, "no running product variable (a local assigned once per rung) in " + name)
        return None
    rname = fn.locals[ratio]["n"]
    ats = A.atoms(fn, cut="all")
    masks = []
    for at in ats:
        c = at.cond()
        # an assertion of the dispatch's own precondition (`debug_assert!(tick >= 0)` in the positive ladder, `tick < 0` resp.
        # `abs_tick > 0` .. in the negative one) decides nothing: one side only panics, and the condition holds for every argument
        # the dispatch passes
        if c and (at.true_fail != at.false_fail) and not (at.true_codes | at.false_codes):
            from rules.common import decided
            dc = decided(at, lambda t: strip(t)[0] == "param", ("Ge", "Lt"))
            if dc is not None and const_val(dc[2]) == 0:
                holds_on_continue = not cfg.fail_only(fn, dc[3][0])     # the side where `param OP 0` holds continues
                pre = "Ge" if name.endswith("positive_tick") else "Lt"
                if holds_on_continue and dc[0] == pre:
                    continue
        ok = c and c[0] == "Ne" and const_val(c[2]) == 0 and strip(c[1])[0] == "bin" and strip(c[1])[1] == "BitAnd" and tickterm(pv, strip(c[1])[2])
        if not ok:
            run.bad(R1, "ladder-atoms@" + name, "%s branches on %s; a ladder may only test `tick & 2^k != 0`" % (name, at.describe()[:120]), loc=fn.loc(at.line))
            return None
        masks.append((_const(strip(c[1])[3]), at))
    run.check(R1, "masks@" + name, [m for m, _ in masks] == [1 << k for k in range(NBITS)], "%s tests masks %s; expected exactly 2^0..2^%d once each in order" % (name, [m for m, _ in masks], NBITS - 1),
              loc=fn.loc(), detail="masks 2^0..2^18, once each")
    defs = pv.var_defs(ratio)
    by_block = {}
    for b, line, t in defs:
        by_block.setdefault(b, []).append(strip(t))
    steps = []
    used = set()
    init = {}
    ok_all = True
    for i, (mask, at) in enumerate(masks):
        nxt = masks[i + 1][1].block if i + 1 < len(masks) else None
        tr = cfg.reach(fn, at.true_targets[0], cut_blocks=[nxt] if nxt is not None else [])
        fr = cfg.reach(fn, at.false_targets[0], cut_blocks=[nxt] if nxt is not None else [])
        if nxt is None:
            # last rung: both sides run into the return; the exclusive region is what only the true edge reaches
            tr, fr = tr - fr, fr - tr
        td = [(b, t) for b in sorted(tr) for t in by_block.get(b, [])]
        fd = [(b, t) for b in sorted(fr) for t in by_block.get(b, [])]
        used.update(b for b, _ in td + fd)
        def step_literal(t):
            if name.endswith("positive_tick"):
                if t[0] == "call" and t[1].endswith("mul_shift_96") and strip(t[2][0]) == ("var", rname, ratio):
                    return _const(t[2][1])
            else:
                if t[0] == "bin" and t[1] == "Shr" and _const(t[3]) == 64:
                    mu = strip(t[2])
                    if mu[0] == "bin" and mu[1].startswith("Mul") and strip(mu[2]) == ("var", rname, ratio):
                        return _const(mu[3])
            return None
        if i == 0:
            ok = len(td) == 1 and len(fd) == 1 and _const(td[0][1]) is not None and _const(fd[0][1]) is not None
            if ok:
                init = {True: _const(td[0][1]), False: _const(fd[0][1])}
            else:
                # bit 0 written like every other rung over the unit start value: step(1.0, literal) is the literal itself
                # (mul_shift_96(2^96, x) = x; (2^64 * x) >> 64 = x), so the two forms start the ladder identically
                one = 1 << (96 if name.endswith("positive_tick") else 64)
                pre = [(b, t) for b in by_block if b not in tr and b not in fr and cfg.dominates(fn, b, at.block) for t in by_block[b]]
                l0 = step_literal(td[0][1]) if len(td) == 1 and not fd else None
                ok = len(pre) == 1 and _const(pre[0][1]) == one and l0 is not None
                if ok:
                    init = {True: l0, False: one}
                    used.add(pre[0][0])
            ok_all = ok_all and ok
            continue
        lit = None
        if len(td) == 1 and not fd:
            lit = step_literal(td[0][1])
        if lit is None:
            ok_all = False
            run.bad(R1, "rung@%s/%d" % (name, mask), "mask %d of %s does not guard exactly one `ratio = step(ratio, literal)`: true side %s, false side %s" %
                    (mask, name, [sh(t, 60) for _, t in td], [sh(t, 60) for _, t in fd]), loc=fn.loc(at.line))
        else:
            run.ok(R1, "rung@%s/%d" % (name, mask), detail="bit %d => ratio := step(ratio, %d)" % (mask.bit_length() - 1, lit))
            steps.append((mask, lit))
    stray = [b for b in by_block if b not in used]
    run.check(R1, "no-stray-updates@" + name, not stray and ok_all, "%s assigns `ratio` outside the 19 rungs (blocks %s)" % (name, stray), loc=fn.loc(), detail="%d definitions of ratio, all inside rungs" % len(defs))
    rets = []
    for bi, bb in enumerate(fn.blocks):
        if bb["t"]["k"] == "ret":
            rets.append(strip(pv.local(0, bi, len(bb["s"]))))
    shift = None
    if len(rets) == 1:
        r = rets[0]
        if r == ("var", rname, ratio):
            shift = 0
        elif r[0] == "bin" and r[1] == "Shr" and strip(r[2]) == ("var", rname, ratio):
            shift = _const(r[3])
    want = 32 if name.endswith("positive_tick") else 0
    run.check(R1, "final-shift@" + name, shift == want, "%s returns %s; expected ratio >> %d" % (name, [sh(r, 60) for r in rets], want), loc=fn.loc(), detail="returns ratio >> %d" % want)
    if not ok_all or len(steps) != NBITS - 1 or not init or shift != want:
        return None
    return init, steps, shift


def _tick_is_param(pv, t):
    return is_param(t, "tick")


def _tick_is_abs(pv, t):
    t = strip(t)
    if t[0] == "var":
        ds = pv.var_defs(t[2])
        return len(ds) == 1 and is_call(ds[0][2], "abs") and is_param(strip(ds[0][2])[2][0], "tick")
    return is_call(t, "abs") and is_param(t[2][0], "tick")


def passed_to_ladders(facts, tm, dispatch, param):
    """What the dispatch hands each ladder: {callee last name: "tick" | "abs" | None}. The negative ladder works on |tick|; whether
    the magnitude is taken by the dispatch or inside the ladder is the same computation."""
    d = facts.fn(tm + dispatch)
    out = {}
    if d is None:
        return out
    pv = prov_of(d)
    for b, t in d.calls():
        last = (callee_path(t) or "").rsplit("::", 1)[-1]
        if not last.startswith("get_sqrt_price_") or not t["a"]:
            continue
        a = strip(pv.operand(t["a"][0], b, len(d.blocks[b]["s"])))
        how = "tick" if is_param(a, param) else ("abs" if is_call(a, "abs") and is_param(strip(a)[2][0], param) else None)
        out[last] = how if out.get(last, how) == how else None
    return out


def tick_magnitude(passed, pname="tick"):
    """Term test for the value a ladder masks, given what the dispatch passed ("tick" / "abs")."""
    def test(pv, t):
        t = strip(t)
        inner_abs = _tick_is_abs(pv, t) if pname == "tick" else False
        if not inner_abs:
            if t[0] == "var":
                ds = pv.var_defs(t[2])
                inner_abs = len(ds) == 1 and is_call(ds[0][2], "abs") and strip(ds[0][2])[2][0][0] == "param"
            else:
                inner_abs = is_call(t, "abs") and strip(t)[2][0][0] == "param"
        if passed == "abs":
            return inner_abs or t[0] == "param"
        if passed == "tick":
            return inner_abs
        return False
    return test


def _fold(ladder, positive, tick):
    init, steps, shift = ladder
    a = abs(tick)
    r = init[bool(a & 1)]
    for mask, lit in steps:
        if a & mask:
            r = (r * lit) >> (96 if positive else 64)
    return r >> shift


def R1_R2_ladders(run):
    run.title("R1", "both ladders test masks 2^0..2^18 once each in order, every rung guards exactly one ratio := step(ratio, literal) (positive: mul_shift_96 = U256 product >> 96, "
                    "then >> 32; negative: (ratio * literal) >> 64 on |tick|); dispatch tick >= 0 => positive; MAX_TICK_INDEX < 2^19 and MIN = -MAX")
    run.title("R2", "each ladder literal is within relative 2^-31 of 2^96 * sqrt(1.0001)^(2^k) (positive) resp. 2^64 / sqrt(1.0001)^(2^k) (negative); the even-start literal is exactly 2^96 / 2^64")
    run.title("R4", "published bounds: MIN/MAX_SQRT_PRICE_X64 are the constant-folded ladder values at MIN/MAX_TICK_INDEX; single definitions")
    facts = run.facts
    cv = facts.const_value
    mx, mn = cv("state::tick::MAX_TICK_INDEX"), cv("state::tick::MIN_TICK_INDEX")
    run.check("R1", "tick-range", mx is not None and 0 < mx < (1 << NBITS) and mn == -mx, "MAX_TICK_INDEX=%s MIN_TICK_INDEX=%s must be symmetric and below 2^%d" % (mx, mn, NBITS), detail="|tick| <= %s < 2^19" % mx)
    d = facts.need_fn(TM + "sqrt_price_from_tick_index")
    run.touch(d)
    ats = A.atoms(d)
    ok = len(ats) == 1
    if ok:
        # tick > 0 is equivalent: both ladders fold to 2^64 at 0 (R4 unit-price checks both); `tick < 0` with swapped arms is the same test
        from rules.common import decided
        dc = decided(ats[0], lambda t: is_param(t, "tick"), ("Ge", "Gt"))
        ok = dc is not None and const_val(dc[2]) == 0
        if ok:
            own = lambda t: (callee_path(t) or "").rsplit("::", 1)[-1] != "abs"
            tcalls = {callee_path(t) for b, t in d.calls() if b in cfg.reach(d, dc[3][0]) - cfg.reach(d, dc[4][0]) and own(t)}
            fcalls = {callee_path(t) for b, t in d.calls() if b in cfg.reach(d, dc[4][0]) - cfg.reach(d, dc[3][0]) and own(t)}
            ok = tcalls == {TM + "get_sqrt_price_positive_tick"} and fcalls == {TM + "get_sqrt_price_negative_tick"}
            passed = passed_to_ladders(facts, TM, "sqrt_price_from_tick_index", "tick")
            # the non-negative side passes tick (|tick| is the same value there); the negative side passes tick or |tick| (the ladder
            # check below then requires the magnitude to be taken exactly once, here or inside)
            ok = ok and passed.get("get_sqrt_price_positive_tick") in ("tick", "abs") and passed.get("get_sqrt_price_negative_tick") in ("tick", "abs")
    run.check("R1", "dispatch", ok, "sqrt_price_from_tick_index is not `if tick >= 0 { positive(tick) } else { negative(tick) }`", loc=d.loc(), detail="tick >= 0 => positive ladder, else negative ladder")
    ms = facts.need_fn(TM + "mul_shift_96")
    run.touch(ms)
    pvm = prov_of(ms)
    r = [strip(pvm.local(0, bi, len(bb["s"]))) for bi, bb in enumerate(ms.blocks) if bb["t"]["k"] == "ret"]
    ok = len(r) == 1 and is_call(r[0], "try_into_u128")
    if ok:
        s = strip(strip(r[0])[2][0])
        ok = s[0] == "call" and s[1].endswith("shift_right") and const_val(s[2][1]) == 96
        if ok:
            m = strip(s[2][0])
            ok = m[0] == "call" and m[1].endswith("mul_u256") and {x[1] for x in map(strip, m[2]) if x[0] == "param"} == {"n0", "n1"}
    run.check("R1", "mul_shift_96", ok, "mul_shift_96 is not mul_u256(n0, n1).shift_right(96).try_into_u128().unwrap()", loc=ms.loc(), detail="(n0 * n1) >> 96 over 256 bits")
    passed = passed_to_ladders(facts, TM, "sqrt_price_from_tick_index", "tick")
    pos = _ladder(run, "get_sqrt_price_positive_tick", _tick_is_param)
    neg = _ladder(run, "get_sqrt_price_negative_tick", tick_magnitude(passed.get("get_sqrt_price_negative_tick")))
    band = Decimal(2) ** -31
    worst = Decimal(0)
    n = 0
    for lad, positive in ((pos, True), (neg, False)):
        if lad is None:
            continue
        name = "positive" if positive else "negative"
        init, steps, _ = lad
        one = 1 << (96 if positive else 64)
        run.check("R2", "unit@" + name, init[False] == one, "the even-tick start of the %s ladder is %s, expected 2^%d" % (name, init[False], 96 if positive else 64), detail="1.0 in Q%s" % ("32.96" if positive else "64.64"))
        for mask, lit in [(1, init[True])] + steps:
            exact = Decimal(one) * (BASE ** mask if positive else 1 / (BASE ** mask))
            rel = abs(Decimal(lit) / exact - 1)
            worst = max(worst, rel)
            n += 1
            run.check("R2", "literal@%s/%d" % (name, mask), rel <= band, "literal %d for bit %d of the %s ladder deviates from sqrt(1.0001)^%s%d by 2^%.1f relative (> 2^-31): the step across tick %s%d alone breaks the 2^-32 tolerance" %
                      (lit, mask.bit_length() - 1, name, "" if positive else "-", mask, float(rel.ln() / Decimal(2).ln()) if rel > 0 else -999, "" if positive else "-", mask),
                      detail="rel err 2^%.1f" % (float(rel.ln() / Decimal(2).ln()) if rel > 0 else -999))
    run.floor("R2", "literals", n, 38)
    if pos and neg and mx:
        hi, lo = _fold(pos, True, mx), _fold(neg, False, mn)
        pmx, pmn = cv(TM + "MAX_SQRT_PRICE_X64"), cv(TM + "MIN_SQRT_PRICE_X64")
        run.check("R4", "max-price", hi == pmx, "MAX_SQRT_PRICE_X64 = %s but the positive ladder folds to %s at tick %s" % (pmx, hi, mx), detail="ladder(%s) = %s" % (mx, hi))
        run.check("R4", "min-price", lo == pmn, "MIN_SQRT_PRICE_X64 = %s but the negative ladder folds to %s at tick %s" % (pmn, lo, mn), detail="ladder(%s) = %s" % (mn, lo))
        z = (_fold(pos, True, 0), _fold(neg, False, 0))
        run.check("R4", "unit-price", z[0] == z[1] == 1 << 64, "tick 0 folds to %s / %s in the two ladders, expected 2^64" % z, detail="both ladders fold to 2^64 at tick 0")
    defs = [c for c in facts.consts if c.rsplit("::", 1)[-1] in ("MAX_SQRT_PRICE_X64", "MIN_SQRT_PRICE_X64", "MAX_TICK_INDEX", "MIN_TICK_INDEX")] if hasattr(facts, "consts") else None
    if defs is not None:
        vals = {}
        for c in defs:
            vals.setdefault(c.rsplit("::", 1)[-1], set()).add(cv(c))
        run.check("R4", "copies-agree", all(len(v) == 1 for v in vals.values()) and len(vals) == 4, "copies of the bounds disagree: %s" % {k: sorted(map(str, v)) for k, v in vals.items()},
                  detail="%d definitions, %d distinct names" % (len(defs), len(vals)))


def R3_inverse(run):
    run.title("R3", "tick_index_from_sqrt_price: LOG_B_2_X32 = 2^32 * log_sqrt(1.0001)(2) within 2^-26; upper margin >= 2^64 * 2^-BIT_PRECISION * log_b(2) (less 0.1%), lower margin >= 0, "
                    "margins sum < 1 tick; loop runs while precision < BIT_PRECISION; result = tick_low if equal, else price(tick_high) <= input => tick_high else tick_low")
    facts = run.facts
    cv = facts.const_value
    logb2 = Decimal(2).ln() / BASE.ln()
    k = cv(TM + "LOG_B_2_X32")
    p = cv(TM + "BIT_PRECISION")
    lo = cv(TM + "LOG_B_P_ERR_MARGIN_LOWER_X64")
    up = cv(TM + "LOG_B_P_ERR_MARGIN_UPPER_X64")
    ok = None not in (k, p, lo, up)
    run.check("R3", "constants-present", ok, "inverse constants missing: %s" % [k, p, lo, up], detail="LOG_B_2_X32, BIT_PRECISION, margins")
    if not ok:
        return
    rel = abs(Decimal(k) / (logb2 * 2 ** 32) - 1)
    run.check("R3", "log-base", rel <= Decimal(2) ** -26, "LOG_B_2_X32 = %s deviates from 2^32 * log_sqrt(1.0001)(2) by 2^%.1f (> 2^-26 = 0.01 tick at the extreme ticks)" % (k, float(rel.ln() / Decimal(2).ln())),
              detail="rel err 2^%.1f" % float(rel.ln() / Decimal(2).ln()))
    need = logb2 / (Decimal(2) ** p)
    u, l = Decimal(up) / 2 ** 64, Decimal(lo) / 2 ** 64
    # the margin has to cover the full truncation error of the p-bit log2 (need) plus what the fixed-point steps lose on top of it:
    # LOG_B_2_X32 is cut to 32 fractional bits and multiplies a log2 of magnitude <= 64 (64 * 2^-32 tick), and each of the p
    # squarings drops bits below 2^-63; 2^-24 tick bounds both. A margin re-derived as exactly LOG_B_2_X32 >> p sits below `need`.
    slack = Decimal(2) ** -24
    run.check("R3", "upper-margin", u >= need + slack, "upper margin %.7f tick does not exceed the %d-bit truncation error %.7f tick by the fixed-point slack 2^-24: a boundary price whose log2 is underestimated by the full error maps to the tick below" % (u, p, need),
              detail="%.5f >= %.5f + 2^-24" % (u, need))
    run.check("R3", "lower-margin", l >= 0 and u + l < 1, "margins (%.5f, %.5f) must be non-negative and sum below one tick so that the true tick is one of two adjacent candidates" % (l, u), detail="0 <= %.5f; sum %.5f < 1" % (l, u + l))
    check_inverse(run, facts, TM, "tick_index_from_sqrt_price", "sqrt_price_from_tick_index", ("sqrt_price_x64", "sqrt_price_x64"))


def check_inverse(run, facts, tm, fnname, price_fn, params, rule="R3", tag=""):
    """Shape of the inverse: loop bound, base change, candidates, final choice. Variables are found by the shape of
    their definitions, never by name. `params` = accepted names of the input price parameter."""
    from analysis.prov import prov_assuming
    cv = facts.const_value
    k, p, lo, up = cv(tm + "LOG_B_2_X32"), cv(tm + "BIT_PRECISION"), cv(tm + "LOG_B_P_ERR_MARGIN_LOWER_X64"), cv(tm + "LOG_B_P_ERR_MARGIN_UPPER_X64")
    fn = facts.need_fn(tm + fnname)
    run.touch(fn)
    pv = Prov(fn, cut="all")
    ats = A.atoms(fn, cut="all")

    def expand(t, depth=0):
        """Replace single-definition variables by their definition (bounded)."""
        t = strip(t)
        if depth > 12 or not isinstance(t, tuple):
            return t
        if t[0] == "var":
            ds = pv.var_defs(t[2])
            if len(ds) == 1:
                return expand(ds[0][2], depth + 1)
            return t
        if t[0] in ("bin",):
            return (t[0], t[1], expand(t[2], depth + 1), expand(t[3], depth + 1))
        if t[0] in ("cast", "q", "un"):
            return t[:1] + tuple(expand(x, depth + 1) if isinstance(x, tuple) else x for x in t[1:])
        if t[0] == "call":
            return (t[0], t[1], tuple(expand(x, depth + 1) for x in t[2])) + t[3:]
        return t

    def unwrap(t):
        t = strip(t)
        while t[0] in ("cast", "q") or (t[0] == "call" and t[1].rsplit("::", 1)[-1] in ("try_into", "unwrap", "into") and len(t[2]) == 1):
            t = strip(t[1] if t[0] != "call" else t[2][0])
        return t

    def candidate(t, op, margin):
        """inner log term X if t is ((X op margin) >> 64) possibly converted, else None"""
        t = unwrap(expand(t))
        if t[0] == "bin" and t[1] == "Shr" and _const(t[3]) == 64:
            inner = unwrap(t[2])
            if inner[0] == "bin" and inner[1].startswith(op) and _const(inner[3]) == margin:
                return unwrap(inner[2])
        return None
    # integer part and mantissa: msb = 127 - leading_zeros(price); the mantissa is the price shifted so that its top bit is bit 63,
    # by truncation only (a rounded mantissa can carry into the next octave, which the integer part then does not reflect)
    named0 = [l for l in range(fn.argc + 1, len(fn.locals)) if fn.locals[l].get("n")]

    def is_price(t):
        t = unwrap(expand(t))
        return is_param(t, params[0]) or is_param(t, params[1])

    def lz_atom(x):
        x = strip(x)
        if x[0] == "call" and x[1].endswith("leading_zeros") and len(x[2]) == 1 and is_price(x[2][0]):
            return "lz"
        if x[0] == "var":
            return "v%d" % x[2]
        return sh(x, 40)
    msbs = [l for l in named0 if len(pv.var_defs(l)) == 1 and P.poly(pv.var_defs(l)[0][2], lz_atom) == {(): 127, ("lz",): -1}]
    run.check(rule, tag + "msb", len(msbs) == 1, "the integer part of log2 is not taken from msb = 128 - leading_zeros(price) - 1", loc=fn.loc(), detail="msb := 127 - leading_zeros(price)")
    if len(msbs) == 1:
        m = msbs[0]
        squared = [l for l in named0 if any(strip(t)[0] == "bin" and strip(t)[1].startswith("Mul") and unwrap(strip(t)[2]) == ("var", fn.locals[l]["n"], l) and unwrap(strip(t)[3]) == ("var", fn.locals[l]["n"], l)
                                         for (_, _, t) in pv.var_defs(l))]
        ok = len(squared) == 1
        forms = []
        if ok:
            r = squared[0]
            inits = [t for (_, _, t) in pv.var_defs(r) if not any(x == ("var", fn.locals[r]["n"], r) for x in subterms(t))]
            matom = lambda x: "msb" if unwrap(x) == ("var", fn.locals[m]["n"], m) else sh(x, 30)
            for t in inits:
                t = unwrap(t)
                if t[0] == "call" and t[1].rsplit("::", 1)[-1] in ("shr", "shl") and len(t[2]) == 2:
                    # shifting a `&u128` goes through the operator trait
                    t = ("bin", "Shr" if t[1].endswith("shr") else "Shl", t[2][0], t[2][1])
                if t[0] == "bin" and t[1] in ("Shr", "ShrUnchecked") and is_price(t[2]) and P.poly(t[3], matom) == {("msb",): 1, (): -63}:
                    forms.append("shr")
                elif t[0] == "bin" and t[1] in ("Shl", "ShlUnchecked") and is_price(t[2]) and P.poly(t[3], matom) == {("msb",): -1, (): 63}:
                    forms.append("shl")
                else:
                    forms.append("?" + sh(t, 60))
            ok = sorted(forms) == ["shl", "shr"]
        run.check(rule, tag + "mantissa", ok, "the mantissa fed to the squaring loop is %s; expected price >> (msb - 63) or price << (63 - msb), nothing added" % (forms or "not found"), loc=fn.loc(),
                  detail="r := price >> (msb - 63) | price << (63 - msb)")
    loop = [at for at in ats if at.cond() and at.cond()[0] == "Lt" and unwrap(at.cond()[1])[0] == "var" and const_val(at.cond()[2]) == p and len(pv.var_defs(unwrap(at.cond()[1])[2])) >= 2]
    if not loop:
        # `for _ in 0..BIT_PRECISION`: the same bound as a range
        for bi, bb in enumerate(fn.blocks):
            for si, st in enumerate(bb["s"]):
                agg = st.get("rv", {}).get("agg") if st["k"] == "=" else None
                if agg and agg.get("k") == "adt" and agg["adt"].endswith("ops::Range") and not bb["c"]:
                    t_ = pv._rvalue(st["rv"], bi, si, 0)
                    d_ = dict(t_[3])
                    if const_val(d_.get("start", ("unknown",))) == 0 and const_val(d_.get("end", ("unknown",))) == p:
                        loop.append(("range", bi))
    run.check(rule, tag + "precision-loop", len(loop) == 1, "the log2 loop is not bounded by `<counter> < BIT_PRECISION`", loc=fn.loc(), detail="while bit > 0 && precision < %s" % p)
    named = [l for l in range(fn.argc + 1, len(fn.locals)) if fn.locals[l].get("n")]
    lows = [l for l in named if len(pv.var_defs(l)) == 1 and candidate(pv.var_defs(l)[0][2], "Sub", lo) is not None]
    highs = [l for l in named if len(pv.var_defs(l)) == 1 and candidate(pv.var_defs(l)[0][2], "Add", up) is not None]
    # a candidate computed in a helper that is read spliced in is copied into the caller's own variable: the copy is the candidate
    # the final choice talks about, the helper's local only its source
    def outermost(cs):
        src = set()
        for l in cs:
            d_ = strip(pv.var_defs(l)[0][2])
            while d_[0] in ("cast", "q"):
                d_ = strip(d_[1])
            if d_[0] == "var" and d_[2] in cs:
                src.add(d_[2])
        return [l for l in cs if l not in src]
    lows, highs = outermost(lows), outermost(highs)
    ok = len(lows) == 1 and len(highs) == 1
    logt = None
    if ok:
        la, ha = candidate(pv.var_defs(lows[0])[0][2], "Sub", lo), candidate(pv.var_defs(highs[0])[0][2], "Add", up)
        ok = la == ha
        logt = la
    run.check(rule, tag + "candidates", ok, "there are no two candidates (log - LOWER) >> 64 and (log + UPPER) >> 64 over the same log term", loc=fn.loc(), detail="tick_low := (log - L) >> 64; tick_high := (log + U) >> 64")
    if not ok:
        return
    tl, th = lows[0], highs[0]
    ok = logt[0] == "bin" and logt[1].startswith("Mul") and (_const(logt[3]) == k or _const(logt[2]) == k)
    run.check(rule, tag + "base-change", ok, "the log term is not log2(p) * LOG_B_2_X32", loc=fn.loc(), detail="log_b(p) := log2(p) * LOG_B_2_X32")

    def is_var(t, local):
        t = unwrap(t)
        return t[0] == "var" and t[2] == local
    eq = [at for at in ats if at.cond() and at.cond()[0] in ("Eq", "Ne") and {unwrap(at.cond()[1])[2:3], unwrap(at.cond()[2])[2:3]} == {(tl,), (th,)}]

    def shallow(t):
        """Definition of a single-definition variable, one level only (arguments stay variables)."""
        t = unwrap(t)
        if t[0] == "var":
            ds = pv.var_defs(t[2])
            if len(ds) == 1:
                return unwrap(ds[0][2])
        return t

    def is_price_call(t):
        e_ = shallow(t)
        return e_[0] == "call" and e_[1].endswith(price_fn)
    le = [at for at in ats if at.cond() and at.cond()[0] in ("Le", "Ge", "Lt", "Gt") and (is_price_call(at.cond()[1]) or is_price_call(at.cond()[2]))]
    ok = len(eq) == 1 and len(le) == 1
    if ok:
        c = le[0].cond()
        lhs_price = is_price_call(c[1])
        op, a, b = (c[0], c[1], c[2]) if lhs_price else (A.SWAP[c[0]], c[2], c[1])
        a = shallow(a)
        bb_ = shallow(b)
        negated = False
        if op == "Gt":
            # `input < price(high)` with the arms swapped is the same selection
            op, negated = "Le", True
        ok = op == "Le" and is_var(a[2][0], th) and (is_param(bb_, params[0]) or is_param(bb_, params[1]) or
                                                     (bb_[0] == "call" and len(bb_[2]) == 1 and (is_param(bb_[2][0], params[0]) or is_param(bb_[2][0], params[1]))))

        def ret_under(assumptions):
            pva = prov_assuming(fn, assumptions, cut="all")
            out = set()
            for bi, blk in enumerate(fn.blocks):
                if blk["t"]["k"] == "ret" and pva.flow.state_in[bi] is not None:
                    for x in leaves(pva.local(0, bi, len(blk["s"]))):
                        x = unwrap(x)
                        out.add({tl: "low", th: "high"}.get(x[2], "?") if x[0] == "var" else sh(x, 40))
            return out
        if ok:
            e = eq[0]
            same = e.cond()[0] == "Eq"
            le_true = (c[0] == "Le" if lhs_price else c[0] == "Ge") if not negated else False
            r_eq = ret_under([(e, same)])
            r_hi = ret_under([(e, not same), (le[0], le_true)])
            r_lo = ret_under([(e, not same), (le[0], not le_true)])
            ok = r_eq <= {"low", "high"} and len(r_eq) == 1 and r_hi == {"high"} and r_lo == {"low"}
            if not ok:
                run.bad(rule, tag + "final-choice", "returns: equal => %s, price(high) <= input => %s, otherwise => %s; expected either / high / low" % (sorted(r_eq), sorted(r_hi), sorted(r_lo)), loc=fn.loc())
                return
    run.check(rule, tag + "final-choice", ok, "the final selection is not `if low == high {low} else if price(high) <= input {high} else {low}`", loc=fn.loc(),
              detail="one exact comparison against price(tick_high)")


RULES = [R1_R2_ladders, R3_inverse]
