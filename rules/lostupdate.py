"""A field store into a local value that nobody reads afterwards is a lost update: `for mut r in self.reward_infos { r.x = 0 }` zeroes
a copy of the array, `let mut t = *tick; t.liquidity_net = n;` changes a copy of the tick. rustc warns about unused whole-value
assignments, not about these. Expected count on a correct tree: zero; a synthetic positive example is decided on every run so that
the rule cannot pass vacuously."""
from analysis import cfg
from analysis.ir import Fn


def _reads(fn):
    """{local: [(block, statement index)]}: every use of a local except being (the base of) a store target without a deref."""
    out = {}

    def pl(p, b, i, is_write=False):
        for e in p.get("p") or []:
            if isinstance(e, dict) and "ix" in e:
                out.setdefault(e["ix"], []).append((b, i))
        if is_write and "*" not in (p.get("p") or []):
            return
        out.setdefault(p["l"], []).append((b, i))

    def op(o, b, i):
        if isinstance(o, dict):
            for k in ("cp", "mv"):
                if k in o:
                    pl(o[k], b, i)
    for bi, bb in enumerate(fn.blocks):
        for si, st in enumerate(bb["s"]):
            if "p" in st:
                pl(st["p"], bi, si, True)
            rv = st.get("rv") or {}
            for k in ("use", "a", "b", "rep"):
                if k in rv:
                    op(rv[k], bi, si)
            for k in ("ref", "raw", "discr", "len"):
                if k in rv and isinstance(rv[k], dict):
                    pl(rv[k], bi, si)
            for o in rv.get("ops", []):
                op(o, bi, si)
        t = bb["t"]
        n = len(bb["s"])
        if t["k"] == "call":
            for a in t["a"]:
                op(a, bi, n)
            if "ind" in t["f"]:
                op(t["f"]["ind"], bi, n)
            pl(t["d"], bi, n, True)
        elif t["k"] == "switch":
            op(t["d"], bi, n)
        elif t["k"] == "assert":
            op(t["c"], bi, n)
        elif t["k"] == "ret":
            out.setdefault(0, []).append((bi, n))
    return out


def dead_field_stores(fn):
    """[(line, local name, type, field path)] of stores `local.f.. = v` (no deref, local not a parameter nor the return place)
    after which `local` is never read on any path."""
    out = []
    rd = None
    succ = fn.succ()
    examined = 0
    for bi, bb in enumerate(fn.blocks):
        if bb["c"]:
            continue
        for si, st in enumerate(bb["s"]):
            if st["k"] != "=" or not st["p"].get("p"):
                continue
            p = st["p"]
            if "*" in p["p"] or p["l"] <= fn.argc or p["l"] == 0:
                continue
            if not any(isinstance(e, dict) and "f" in e and e.get("a") for e in p["p"]):
                continue
            examined += 1
            if rd is None:
                rd = _reads(fn)
            later = False
            R = None
            for (b, i) in rd.get(p["l"], []):
                if b == bi and i > si:
                    later = True
                    break
                if R is None:
                    R = set().union(*[cfg.reach(fn, s_) for s_ in succ[bi]]) if succ[bi] else set()
                if b in R:
                    later = True
                    break
            if not later:
                out.append((st.get("l"), fn.locals[p["l"]].get("n") or "_%d" % p["l"], fn.locals[p["l"]]["t"],
                            ".".join(e["f"] for e in p["p"] if isinstance(e, dict) and "f" in e)))
    return out, examined


_POSITIVE = {"path": "selftest::lost_update", "kind": "fn", "argc": 1, "file": "<synthetic>", "line": 1, "name": "lost_update",
             "locals": [{"t": "()"}, {"t": "&mut S", "n": "self"}, {"t": "S", "n": "copy"}],
             "blocks": [{"s": [{"k": "=", "p": {"l": 2}, "rv": {"use": {"cp": {"l": 1, "p": ["*"]}}}, "l": 2, "x": 0},
                               {"k": "=", "p": {"l": 2, "p": [{"f": "x", "i": 0, "a": "S"}]}, "rv": {"use": {"k": {"ty": "u64", "v": "0"}}}, "l": 3, "x": 0}],
                         "t": {"k": "ret"}, "c": 0}]}


def R_lost_updates(run, rule="RL"):
    run.title(rule, "no update is made to a copy and dropped: every field store into a local value is followed, on some path, by a read of that value")
    facts = run.facts
    try:
        pos, _ = dead_field_stores(Fn(dict(_POSITIVE), facts))
    except Exception as e:     # the synthetic record no longer fits the fact format: the rule would be blind
        pos = []
        run.missing(rule, "lost-update:self-test", "synthetic positive example could not be analysed: %s" % e)
    run.check(rule, "lost-update:self-test", len(pos) == 1, "the synthetic `let mut copy = *self; copy.x = 0;` is not recognised as a lost update", detail="positive example recognised")
    total = 0
    for fn in facts.fn_list:
        if fn.kind == "const" or fn.expn:
            continue
        dead, n = dead_field_stores(fn)
        total += n
        for (line, name, ty, field) in dead:
            run.bad(rule, "lost-update@%s:%s.%s" % (fn.path, name, field), "%s stores into `%s.%s` (a local %s) and never reads `%s` again: the update is made to a copy and lost" % (
                fn.path, name, field, ty.rsplit("::", 1)[-1], name), loc=fn.loc(line))
    run.floor(rule, "field stores into local values examined", total, 20)
    if total:
        run.ok(rule, "lost-update:none", detail="%d field stores into local values, each read afterwards" % total)
