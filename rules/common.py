"""Small helpers shared by rule modules."""
from analysis import cfg, atoms as A, preach
from analysis.ir import callee_path
from analysis.prov import prov_of, strip, leaves, subterms, show, field_chain
from analysis.match import fail_conditions, sh


def calls_to(fn, pred, ctx=None, cut=False):
    """[(block, terminator, [arg terms])] for reachable calls whose resolved callee satisfies pred."""
    pv = prov_of(fn, ctx, cut=cut) if (ctx is not None or cut) else prov_of(fn)
    out = []
    for bi, t in fn.calls():
        if fn.blocks[bi]["c"]:
            continue
        p = callee_path(t)
        if p is None or not pred(p):
            continue
        if ctx is not None and pv.flow is not None and pv.flow.state_in[bi] is None:
            continue
        args = [pv.operand(a, bi, len(fn.blocks[bi]["s"])) for a in t["a"]]
        out.append((bi, t, args))
    return out


def as_min(t):
    """(a, b) when t is `a.min(b)` / `cmp::min(a, b)`, else None. Rules that expect `if a > b { b } else { a }` accept this form too."""
    t = strip(t)
    if t[0] == "call" and t[1] in ("std::cmp::Ord::min", "core::cmp::Ord::min", "std::cmp::min", "core::cmp::min") and len(t[2]) == 2:
        return t[2][0], t[2][1]
    return None


def as_max(t):
    t = strip(t)
    if t[0] == "call" and t[1] in ("std::cmp::Ord::max", "core::cmp::Ord::max", "std::cmp::max", "core::cmp::max") and len(t[2]) == 2:
        return t[2][0], t[2][1]
    return None


def ends(suffix):
    return lambda p: p == suffix or p.endswith("::" + suffix)


def ctx_fail_conditions(fn, ctx, codes=None, cut=False):
    """[(op, a, b, atom)] failure comparisons reachable in ctx, optionally restricted to error codes."""
    out = []
    for at in A.atoms(fn, ctx, cut=cut):
        for (op, a, b) in fail_conditions(at):
            cs = at.true_codes | at.false_codes
            if codes is None or (cs & set(codes)):
                out.append((op, a, b, at))
    return out


def orient(op, a, b, lhs_pred):
    """Return (op, a, b) oriented so that lhs_pred(a) holds, or None."""
    if lhs_pred(a):
        return (op, a, b)
    if lhs_pred(b):
        return (A.SWAP[op], b, a)
    return None


NEG = {"Lt": "Ge", "Ge": "Lt", "Le": "Gt", "Gt": "Le", "Eq": "Ne", "Ne": "Eq"}


def decided(at, lhs_pred, want_ops):
    """The atom read as `lhs OP rhs` with lhs_pred(lhs) and OP in want_ops, whichever way round and in whichever polarity it is
    written: (op, lhs, rhs, targets when it holds, targets when it does not) or None. `x < c` is `!(x >= c)`; `c <= x` is `x >= c`."""
    c = at.cond()
    if not c:
        return None
    o = orient(c[0], c[1], c[2], lhs_pred)
    if o is None:
        return None
    op, a, b = o
    if op in want_ops:
        return (op, a, b, at.true_targets, at.false_targets)
    if NEG.get(op) in want_ops:
        return (NEG[op], a, b, at.false_targets, at.true_targets)
    return None


def acc(term):
    """Account field name if term is rooted at ctx.accounts.<name>."""
    for s in subterms(term):
        c = field_chain(s)
        if c and len(c) >= 3 and c[0] == "ctx" and c[1] == "accounts":
            return c[2]
    return None


def acc_chain(term):
    """'name.field...' for ctx.accounts.name.field..., else None."""
    c = field_chain(term)
    if c and len(c) >= 3 and c[0] == "ctx" and c[1] == "accounts":
        return ".".join(c[2:])
    return None


def effect_guarded(fn, ctx, atom, effect_blocks):
    """In context ctx, are all effect blocks unreachable once the continuing edge of `atom` is cut?"""
    fl = preach.flow(fn, ctx)
    if atom.true_fail and not atom.false_fail:
        keep = atom.false_targets
    elif atom.false_fail and not atom.true_fail:
        keep = atom.true_targets
    else:
        return False
    cut = {(atom.block, k) for k in keep}
    seen = set()
    work = [0]
    succ = fn.succ()
    while work:
        b = work.pop()
        if b in seen:
            continue
        seen.add(b)
        for s in succ[b]:
            if (b, s) in cut or (b, s) not in fl.edge_feasible:
                continue
            work.append(s)
    return not (set(effect_blocks) & seen)


PREFIXES = ("next_", "new_", "curr_", "default_", "pre_", "post_", "token_")
SUFFIXES = ("_info", "_account", "_key")


def _norm_name(n):
    for p in ("next_", "new_", "curr_", "default_"):
        if n.startswith(p):
            n = n[len(p):]
    for s in ("_info",):
        if n.endswith(s):
            n = n[: -len(s)]
    return n


def arg_name(term):
    """Name carried by an argument term: last field of a chain, or the parameter / variable name."""
    t = strip(term)
    if t[0] == "phi":
        names = {arg_name(x) for x in t[1]}
        return names.pop() if len(names) == 1 else None
    if t[0] == "field":
        return t[2]
    if t[0] == "param":
        return t[1]
    if t[0] == "var":
        return t[1]
    if t[0] == "call" and t[1] == "key" and len(t[2]) == 1:
        return arg_name(t[2][0])
    if t[0] == "call" and len(t[2]) == 1 and "::MemoryMapped" in t[1]:
        return t[1].rsplit("::", 1)[-1]
    return None


def argname_mismatches(facts, caller, bi, t, args):
    """E10: an argument whose name equals (modulo prefixes) the name of one of the callee's
    parameters must be passed in that parameter's position."""
    callee = facts.fn(callee_path(t) or "")
    if callee is None:
        return []
    pnames = [_norm_name(n or "") for n in callee.param_names()]
    out = []
    for i, a in enumerate(args):
        if i >= len(pnames):
            break
        n = arg_name(a)
        if n is None:
            continue
        n = _norm_name(n)
        if n in pnames and pnames[i] != n and pnames.count(n) == 1:
            # only a violation if the types are interchangeable (same type at both positions)
            j = pnames.index(n)
            if callee.locals[i + 1]["t"] == callee.locals[j + 1]["t"]:
                out.append("argument #%d `%s` is passed where `%s` is expected (callee has `%s` at #%d)" % (i, n, pnames[i], n, j))
    return out


def field_reads(fn, field):
    """[(block, stmt)] of statements / call arguments that load a place ending in `.field`."""
    out = []

    def ends_with(pl):
        if not pl or "p" not in pl:
            return False
        fs = [e for e in pl["p"] if isinstance(e, dict) and "f" in e]
        return bool(fs) and fs[-1]["f"] == field and pl["p"][-1] is fs[-1]
    for bi, bb in enumerate(fn.blocks):
        if bb["c"]:
            continue
        for si, st in enumerate(bb["s"]):
            if st["k"] != "=":
                continue
            rv = st["rv"]
            ops = []
            for k in ("use", "a", "b"):
                if k in rv and isinstance(rv[k], dict):
                    ops.append(rv[k])
            if "agg" in rv:
                ops.extend(rv["ops"])
            for o in ops:
                pl = o.get("cp") or o.get("mv")
                if ends_with(pl):
                    out.append((bi, si))
        t = bb["t"]
        if t["k"] == "call":
            for o in t["a"]:
                pl = o.get("cp") or o.get("mv")
                if ends_with(pl):
                    out.append((bi, len(bb["s"])))
    return out


def read_before_call(fn, field, call_block):
    """Every load of `.field` happens before the call in `call_block` executes (its block
    dominates the call block, or it is an earlier statement / the argument of that block)."""
    rs = field_reads(fn, field)
    if not rs:
        return False
    for (bi, si) in rs:
        if bi == call_block:
            continue
        if not cfg.dominates(fn, bi, call_block):
            return False
    return True


def enum_arms(fn, facts, pred):
    """(switch block, {variant name: target block}) of the `match` on a value whose provenance satisfies pred.
    The matched type is read from the callee's signature (call results) or from the parameter's type."""
    from analysis.prov import prov_of, strip
    pv = prov_of(fn)
    for bi, bb in enumerate(fn.blocks):
        t = bb["t"]
        if t["k"] != "switch":
            continue
        d = strip(pv.operand(t["d"], bi, len(bb["s"])))
        if d[0] != "discr" or not pred(strip(d[1])):
            continue
        c = strip(d[1])
        ty = None
        if c[0] == "call":
            callee = facts.fn(c[1])
            ty = callee.sig["out"] if callee is not None else None
        elif c[0] == "param":
            i = fn.param_index(c[1])
            ty = fn.locals[i]["t"] if i else None
        if ty:
            ty = ty.lstrip("&").replace("mut ", "").strip()
        adt = facts.adts.get(ty) if ty else None
        if not adt and ty:
            adt = facts.adts.get(ty.split("<")[0])     # `Event<'_>`
        if not adt:
            return None
        names = {str(v): n for n, v in adt.get("discrs", [])}
        arms = {names.get(str(v), str(v)): b for v, b in t["ts"]}
        rest = [n for n in names.values() if n not in arms]
        if len(rest) == 1:
            arms[rest[0]] = t["o"]
        return bi, arms
    return None


def arm_prov(fn, sw, target, ctx=None):
    """Provenance restricted to one arm of the switch in block `sw`."""
    from analysis.prov import Prov
    from analysis import preach
    cut = {(sw, x) for x in fn.succ()[sw] if x != target}
    return Prov(fn, preach.EdgeFlow(fn, cut, preach.flow(fn, ctx) if ctx else None))


class RuleProxy:
    """Re-decide another module's rule instances under this property's own rule id."""

    def __init__(self, run, rule):
        self._r, self._rule = run, rule

    def __getattr__(self, k):
        return getattr(self._r, k)

    def check(self, rule, *a, **kw):
        return self._r.check(self._rule, *a, **kw)

    def ok(self, rule, *a, **kw):
        return self._r.ok(self._rule, *a, **kw)

    def bad(self, rule, *a, **kw):
        return self._r.bad(self._rule, *a, **kw)

    def missing(self, rule, *a, **kw):
        return self._r.missing(self._rule, *a, **kw)

    def title(self, rule, text):
        pass

    def floor(self, rule, *a, **kw):
        return self._r.floor(self._rule, *a, **kw)


def var_read_sites(fn, pv, op, bi, si, var_local, _seen=None, _depth=0):
    """Program points (block, statement) at which `var_local` is read on the data flow into operand `op` evaluated at (bi, si).
    Temporaries are traced back through their reaching definitions; calls are traced through their arguments."""
    from analysis.ir import op_place
    out = set()
    _seen = _seen if _seen is not None else set()
    if _depth > 40:
        return out
    pl = op_place(op) if isinstance(op, dict) else None
    if pl is None:
        return out
    l = pl["l"]
    if l == var_local:
        out.add((bi, si))
        return out
    key = (l, bi, si)
    if key in _seen:
        return out
    _seen.add(key)
    whole, partial, _ = pv.reaching(l, bi, si)
    for d in whole + partial:
        dbi, dsi, _, node = d
        ops = []
        if node.get("k") == "call":
            ops = list(node.get("a", []))
        else:
            rv = node.get("rv", {})

            def collect(x):
                if isinstance(x, dict):
                    if "cp" in x or "mv" in x:
                        ops.append(x)
                        return
                    if "l" in x and isinstance(x.get("l"), int) and ("p" in x or len(x) == 1):
                        ops.append({"cp": x})   # a bare place (ref / discriminant / len)
                        return
                    for v in x.values():
                        collect(v)
                elif isinstance(x, list):
                    for v in x:
                        collect(v)
            collect(rv)
        for o in ops:
            out |= var_read_sites(fn, pv, o, dbi, dsi, var_local, _seen, _depth + 1)
    return out


def entry_forwarding(run, rule, only=None):
    """Every Anchor dispatch wrapper hands its own arguments to the handler under the names the handler gives them
    (two same-typed arguments in swapped positions change the instruction's meaning without any type error)."""
    from analysis import program
    from analysis.prov import prov_of
    facts = run.facts
    n = 0
    for e in program.entries(facts):
        if e.handler is None or (only and not any(o in e.name for o in only)):
            continue
        f = e.fn
        pv = prov_of(f)
        for bi, t in f.calls():
            if callee_path(t) != e.handler:
                continue
            args = [pv.operand(a, bi, len(f.blocks[bi]["s"])) for a in t["a"]]
            mm = argname_mismatches(facts, f, bi, t, args)
            n += 1
            run.check(rule, "entry-forwards:" + e.name, not mm, "dispatch wrapper `%s` passes its arguments to %s in the wrong positions: %s" % (e.name, e.handler, "; ".join(mm)), loc=f.loc(t["l"]),
                      detail="%d argument(s) forwarded under the handler's own names" % max(0, len(args) - 1))
    return n


def owner_tests(fn):
    """Atoms `account.is_owned_by(&CONST)` whose false side only fails: [(atom, constant name, account term, error codes)].
    (The helper check_owner_program is always analysed inlined.)"""
    from analysis import atoms as A_
    out = []
    for at in A_.atoms(fn):
        t = strip(at.term)
        neg = False
        while t[0] == "un" and t[1] == "Not":
            t = strip(t[2])
            neg = not neg
        if t[0] == "call" and t[1].endswith("is_owned_by") and len(t[2]) == 2:
            k = strip(t[2][1])
            if k[0] == "const":
                fails_when_not_owned = at.true_fail if neg else at.false_fail
                passes_when_owned = not (at.false_fail if neg else at.true_fail)
                if fails_when_not_owned and passes_when_owned:
                    out.append((at, (k[2] or "").split("<")[0].rsplit("::", 1)[-1], t[2][0], (at.true_codes if neg else at.false_codes), neg))
    return out


def same_as_specialised(wrapper, callee, ctx):
    """A wrapper that no longer calls `callee(.., flag)` but spells out what callee does for that flag: its guard atoms, primitive
    calls and returned terms equal those of `callee` in context `ctx` (atoms decided by the context itself left out).
    Returns (ok, difference text)."""
    from analysis import siblings as S
    sa = S.summary(wrapper, S.Norm())
    sb = S.summary(callee, S.Norm(), ctx=dict(ctx))
    decided_ = set(ctx) | {"0", "1", "true", "false"}
    sb["atoms"] = {a for a in sb["atoms"] if a.split(" => ", 1)[0] not in decided_}
    d = S.diff(sa, sb)
    if not d:
        return True, ""
    parts = []
    for k, oa, ob in d:
        parts += ["%s only in %s: %s" % (k, wrapper.name, x[:160]) for x in oa] + ["%s only in %s[%s]: %s" % (k, callee.name, ctx, x[:160]) for x in ob]
    return False, "; ".join(parts[:6])


def verified_conditions(h, callee_suffix="verify_constraint"):
    """Conditions a Pinocchio handler demands through `verify_constraint(c)?`: [(condition term, block of the call, line)]. For
    `verify_constraint(a && b)?` both a and b: the argument is then `b` or the literal false, and a guard atom under whose
    false outcome the argument is the literal false is itself a demanded conjunct."""
    from analysis.prov import prov_assuming
    pv = prov_of(h)
    out = []
    for bi, t in h.calls():
        if not (callee_path(t) or "").endswith(callee_suffix) or h.blocks[bi]["c"] or not t["a"]:
            continue
        arg = pv.operand(t["a"][0], bi, len(h.blocks[bi]["s"]))
        lv = [strip(x) for x in leaves(arg)]
        real = [x for x in lv if not (x[0] == "const" and x[1] in (0, False))]
        if len(lv) == 1 or len(real) != 1:
            out.append((arg, bi, t["l"]))
            continue
        out.append((real[0], bi, t["l"]))
        for at in A.atoms(h):
            if not cfg.dominates(h, at.block, bi) or at.block == bi:
                continue
            for truth in (False, True):
                try:
                    pa = prov_assuming(h, [(at, truth)])
                except Exception:
                    continue
                if pa.flow is not None and pa.flow.state_in[bi] is None:
                    continue
                v = [strip(x) for x in leaves(pa.operand(t["a"][0], bi, len(h.blocks[bi]["s"])))]
                if v and all(x[0] == "const" and x[1] in (0, False) for x in v):
                    # this outcome of the atom makes the verified condition false: the opposite outcome is demanded
                    term = at.term if truth is False else ("un", "Not", at.term)
                    out.append((term, bi, t["l"]))
    return out
