"""C17 A two-hop swap equals its two single swaps with a matching intermediate amount.

Decided, for all 8 (exact_in, a_to_b_one, a_to_b_two) contexts of both two-hop handlers:
each leg is computed by the single-swap engine exactly once per success path with its own
pool, tick sequence, price limit, direction and adaptive-fee state; exact-in computes leg one
from `amount` and feeds leg one's output-side amount into leg two, exact-out computes leg two
from `amount` and feeds leg two's input-side amount (v2: its fee-excluded amount on the
intermediate mint) into leg one; output(one) != input(two) fails; the two pools must be
distinct and share the intermediate mint before any computation; each pool / oracle is
updated with its own leg's result, booked on that leg's own input side.
Also decided: each leg's adaptive-fee write-back lies on every successful path of both two-hop handlers.
Not decided: equality of resulting account bytes with two separate instructions."""
from analysis import cfg, atoms as A, preach
from analysis.ir import callee_path, AnchorMissing
from analysis.prov import prov_of, strip, leaves, subterms, show
from analysis.match import is_param, is_field, is_call, const_val, sh, mentions, fail_conditions
from rules.common import calls_to, ends, arg_name, acc, acc_chain, ctx_fail_conditions, effect_guarded

SWAPFN = "manager::swap_manager::swap"
SWAPV2 = "instructions::v2::swap::swap_with_transfer_fee_extension"
H1 = "instructions::two_hop_swap::handler"
H2 = "instructions::v2::two_hop_swap::handler"
NAMES = ["amount_specified_is_input", "a_to_b_one", "a_to_b_two"]


def outer_calls(t, paths):
    """Outermost calls to one of `paths` inside term t (does not descend into their arguments)."""
    out = []

    def walk(x):
        if not isinstance(x, tuple) or not x:
            return
        if x[0] == "call" and x[1] in paths:
            out.append(x)
            return
        for y in x[1:]:
            if isinstance(y, tuple):
                if y and isinstance(y[0], str):
                    walk(y)
                else:
                    for z in y:
                        if isinstance(z, tuple):
                            walk(z if (z and isinstance(z[0], str)) else (z[1] if len(z) == 2 and isinstance(z[1], tuple) else ()))
            elif isinstance(y, frozenset):
                for z in y:
                    walk(z)
    walk(t)
    return out


def _leg(term):
    a = acc(term) or ""
    return "one" if "one" in a else "two" if "two" in a else None


def _swap_amount(t):
    """(leg, field) if t is <swap(pool_leg..)?>.amount_x"""
    s = strip(t)
    if s[0] == "field" and s[2] in ("amount_a", "amount_b"):
        b = strip(s[1])
        if b[0] == "call" and b[1] in (SWAPFN, SWAPV2):
            return (_leg(b[2][0]), s[2])
    return None


def R1_legs(run):
    run.title("R1", "both two-hop handlers: in every context each leg calls the single-swap engine exactly once, with pool k, a tick sequence built from pool k and a_to_b_k, "
                    "limit k, direction k, the oracle-derived adaptive-fee state of pool k, and the shared exact_in flag and timestamp")
    facts = run.facts
    for hp, engine, v2 in ((H1, SWAPFN, False), (H2, SWAPV2, True)):
        h = facts.need_fn(hp)
        run.touch(h)
        off = 2 if v2 else 0   # v2 has two mint arguments after the pool
        for ctx in preach.contexts(NAMES):
            tag = "%s[%s]" % ("v2" if v2 else "v1", ",".join("%d" % ctx[n] for n in NAMES))
            cs = calls_to(h, lambda p: p == engine, ctx=ctx)
            legs = {}
            for (bi, t, a) in cs:
                legs.setdefault(_leg(a[0]), []).append((bi, t, a))
            ok = set(legs) == {"one", "two"} and all(len(v) == 1 for v in legs.values())
            run.check("R1", "two-calls:" + tag, ok, "%s in context %s calls the swap engine for legs %s, expected exactly one call per leg" % (hp, ctx, {k: len(v) for k, v in legs.items()}),
                      loc=h.loc(), detail="one engine call per leg")
            if not ok:
                continue
            for leg in ("one", "two"):
                (bi, t, a) = legs[leg][0]
                seq, amount, limit, ei, ab, ts, afi = a[1 + off], a[2 + off], a[3 + off], a[4 + off], a[5 + off], a[6 + off], a[7 + off]
                why = None
                tb = [s for s in subterms(seq) if s[0] == "call" and s[1].endswith("try_build")]
                if not tb or _leg(tb[0][2][1]) != leg or not is_param(tb[0][2][2], "a_to_b_" + leg):
                    why = "tick sequence is not try_build(whirlpool_%s, a_to_b_%s)" % (leg, leg)
                elif not all(leg in (acc(s) or leg) for s in subterms(tb[0][2][0]) if acc(s) and "tick_array" in (acc(s) or "")):
                    why = "tick sequence of leg %s is built from the other leg's tick arrays" % leg
                if not is_param(limit, "sqrt_price_limit_" + leg):
                    why = why or "price limit is %s" % sh(limit, 40)
                if not is_param(ab, "a_to_b_" + leg):
                    why = why or "direction is %s" % sh(ab, 40)
                if not is_param(ei, "amount_specified_is_input"):
                    why = why or "exact_in flag is %s" % sh(ei, 40)
                oa = [s for s in subterms(afi) if s[0] == "call" and s[1].endswith("OracleAccessor::<'info>::new")]
                if not oa or _leg(oa[0][2][0]) != leg or (acc(oa[0][2][1]) or "") != "oracle_" + leg:
                    why = why or "adaptive-fee state does not come from OracleAccessor::new(whirlpool_%s, oracle_%s)" % (leg, leg)
                if v2:
                    ma, mb = acc(a[1]), acc(a[2])
                    inp = "token_mint_input" if leg == "one" else "token_mint_intermediate"
                    outp = "token_mint_intermediate" if leg == "one" else "token_mint_output"
                    want = (inp, outp) if ctx["a_to_b_" + leg] else (outp, inp)
                    if (ma, mb) != want:
                        why = why or "mints (A, B) = (%s, %s), expected %s" % (ma, mb, want)
                run.check("R1", "leg-%s:%s" % (leg, tag), why is None, "%s leg %s in context %s: %s" % (hp, leg, ctx, why), loc=h.loc(t["l"]),
                          detail="pool_%s, try_build(pool_%s, a_to_b_%s), limit_%s, a_to_b_%s, oracle_%s" % ((leg,) * 6))
            # timestamps equal
            ts1 = legs["one"][0][2][6 + off]
            ts2 = legs["two"][0][2][6 + off]
            run.check("R1", "same-timestamp:" + tag, strip(ts1) == strip(ts2), "the two legs use different timestamps", loc=h.loc(), detail="one clock reading")


def R2_coupling(run):
    run.title("R2", "exact-in: leg one swaps `amount`, leg two swaps leg one's output-side amount; exact-out: leg two swaps `amount`, leg one swaps leg two's input-side "
                    "amount (v2: its transfer-fee-excluded amount on the intermediate mint)")
    facts = run.facts
    for hp, engine, v2 in ((H1, SWAPFN, False), (H2, SWAPV2, True)):
        h = facts.need_fn(hp)
        off = 2 if v2 else 0
        for ctx in preach.contexts(NAMES):
            ei = ctx["amount_specified_is_input"]
            tag = "%s[%s]" % ("v2" if v2 else "v1", ",".join("%d" % ctx[n] for n in NAMES))
            cs = {_leg(a[0]): a[2 + off] for (_, _, a) in calls_to(h, lambda p: p == engine, ctx=ctx)}
            if set(cs) != {"one", "two"}:
                continue
            first, second = ("one", "two") if ei else ("two", "one")
            ok1 = is_param(cs[first], "amount")
            t = cs[second]
            want_field = None
            if ei:
                want = ("one", "amount_b" if ctx["a_to_b_one"] else "amount_a")
            else:
                want = ("two", "amount_a" if ctx["a_to_b_two"] else "amount_b")
            inner = t
            wrapped_ok = True
            if v2 and not ei:
                s = strip(t)
                wrapped_ok = s[0] == "field" and s[2] == "amount" and is_call(s[1], "calculate_transfer_fee_excluded_amount") and acc(strip(s[1])[2][0]) == "token_mint_intermediate"
                inner = strip(s[1])[2][1] if wrapped_ok else t
            got = _swap_amount(inner)
            run.check("R2", "first-leg:" + tag, ok1, "%s (%s): leg %s must swap the instruction's `amount`, found %s" % (hp, ctx, first, sh(cs[first], 60)), loc=h.loc(),
                      detail="leg %s amount := amount" % first)
            run.check("R2", "second-leg:" + tag, got == want and wrapped_ok,
                      "%s (%s): leg %s must swap %s%s.%s, found %s" % (hp, ctx, second, "excluded(intermediate mint, " if (v2 and not ei) else "", want[0], want[1], sh(t, 100)), loc=h.loc(),
                      detail="leg %s amount := %sleg %s .%s" % (second, "fee-excluded " if (v2 and not ei) else "", want[0], want[1]))
            # order of computation: first leg's call dominates second leg's
            blocks = {_leg(a[0]): bi for (bi, _, a) in calls_to(h, lambda p: p == engine, ctx=ctx)}
            run.check("R2", "order:" + tag, cfg.dominates(h, blocks[first], blocks[second]), "%s (%s): leg %s is not computed before leg %s" % (hp, ctx, first, second), loc=h.loc(),
                      detail="%s before %s" % (first, second))


def R3_equality_guard(run):
    run.title("R3", "output(one) != input(two) => IntermediateTokenAmountMismatch, in every context, before the slippage check and every state change")
    facts = run.facts
    for hp, v2 in ((H1, False), (H2, True)):
        h = facts.need_fn(hp)
        eff = [bi for bi, t in h.calls() if (callee_path(t) or "").endswith(("update_and_swap_whirlpool", "update_and_two_hop_swap_whirlpool_v2", "OracleAccessor::<'info>::update_adaptive_fee_variables"))]
        for ctx in preach.contexts(NAMES):
            tag = "%s[%s]" % ("v2" if v2 else "v1", ",".join("%d" % ctx[n] for n in NAMES))
            conds = ctx_fail_conditions(h, ctx, codes=("IntermediateTokenAmountMismatch",))
            ok = len(conds) == 1
            why = "expected one mismatch check, found %d" % len(conds)
            if ok:
                op, a, b, at = conds[0]
                sa, sb = _swap_amount(a), _swap_amount(b)
                want = {("one", "amount_b" if ctx["a_to_b_one"] else "amount_a"), ("two", "amount_a" if ctx["a_to_b_two"] else "amount_b")}
                if op != "Ne" or {sa, sb} != want:
                    ok, why = False, "fails when %s %s %s, expected one.%s != two.%s" % (sa, op, sb, "amount_b" if ctx["a_to_b_one"] else "amount_a", "amount_a" if ctx["a_to_b_two"] else "amount_b")
                elif not effect_guarded(h, ctx, at, eff) or not eff:
                    ok, why = False, "the mismatch check does not precede the state changes"
                else:
                    # before the slippage check
                    sl = ctx_fail_conditions(h, ctx, codes=("AmountOutBelowMinimum", "AmountInAboveMaximum"))
                    if not sl or not all(cfg.dominates(h, at.block, s[3].block) for s in sl):
                        ok, why = False, "the mismatch check does not precede the slippage check"
            run.check("R3", "mismatch:" + tag, ok, "%s in context %s: %s" % (hp, ctx, why), loc=h.loc(), detail="one.output != two.input => IntermediateTokenAmountMismatch, first")


def R4_distinct_and_shared_mint(run):
    run.title("R4", "same pool twice => DuplicateTwoHopPool; output mint of leg one != input mint of leg two => InvalidIntermediaryMint; both before any swap computation")
    facts = run.facts
    for hp, engine in ((H1, SWAPFN), (H2, SWAPV2)):
        h = facts.need_fn(hp)
        calls = [bi for bi, t in h.calls() if callee_path(t) == engine]
        dup = None
        for at in A.atoms(h):
            for (op, a, b) in fail_conditions(at):
                if "DuplicateTwoHopPool" in (at.true_codes | at.false_codes) and op == "Eq":
                    ka, kb = strip(a), strip(b)
                    if is_call(ka, "key") and is_call(kb, "key") and {_leg(ka), _leg(kb)} == {"one", "two"}:
                        dup = at
        ok = dup is not None and calls and all(A.guarded_by(h, dup, c) for c in calls)
        run.check("R4", "distinct-pools@" + hp, ok, "%s does not reject whirlpool_one == whirlpool_two before swapping" % hp, loc=h.loc(), detail="key(one) == key(two) => DuplicateTwoHopPool")
        for ctx in preach.contexts(["a_to_b_one", "a_to_b_two"]):
            conds = ctx_fail_conditions(h, ctx, codes=("InvalidIntermediaryMint",))
            ok = len(conds) == 1
            if ok:
                op, a, b, at = conds[0]
                want = {"whirlpool_one.token_mint_" + ("b" if ctx["a_to_b_one"] else "a"), "whirlpool_two.token_mint_" + ("a" if ctx["a_to_b_two"] else "b")}
                ok = op == "Ne" and {acc_chain(a), acc_chain(b)} == want and all(A.guarded_by(h, at, c) for c in calls)
            run.check("R4", "shared-mint@%s[%d,%d]" % (hp.replace("instructions::", ""), ctx["a_to_b_one"], ctx["a_to_b_two"]), ok,
                      "%s (%s): output mint of leg one is not required to equal the input mint of leg two before swapping" % (hp, ctx), loc=h.loc(),
                      detail="one.output_mint != two.input_mint => InvalidIntermediaryMint")


def R5_settlement(run):
    run.title("R5", "each pool and oracle is updated with its own leg's result: v1 settles leg one then leg two through the single-swap settlement; v2 hands both results, "
                    "both pools and both directions to the two-hop settlement in matching positions")
    facts = run.facts
    h = facts.need_fn(H1)
    cs = calls_to(h, ends("update_and_swap_whirlpool"))
    ok = len(cs) == 2
    order = []
    for (bi, t, a) in cs:
        leg = _leg(a[0])
        order.append((bi, leg))
        res = outer_calls(a[7], (SWAPFN,))
        ok = ok and leg is not None and is_param(a[8], "a_to_b_" + leg) and res and all(_leg(r[2][0]) == leg for r in res) and \
            all(leg in (acc(x) or "") for x in a[2:6]) and acc(a[1]) == "token_authority"
    if ok:
        b1 = [b for b, l in order if l == "one"][0]
        b2 = [b for b, l in order if l == "two"][0]
        ok = cfg.dominates(h, b1, b2)
    run.check("R5", "v1-settlement", ok, "two_hop_swap does not settle (pool one, accounts one, result one, a_to_b_one) then (pool two, ...)", loc=h.loc(), detail="leg one settled before leg two, each with its own data")
    for hp in (H1, H2):
        h = facts.need_fn(hp)
        us = calls_to(h, ends("OracleAccessor::<'info>::update_adaptive_fee_variables"))
        ok = len(us) == 2
        for (bi, t, a) in us:
            oa = [s for s in subterms(a[0]) if s[0] == "call" and s[1].endswith("OracleAccessor::<'info>::new")]
            res = outer_calls(a[1], (SWAPFN, SWAPV2))
            ok = ok and oa and res and arg_name(a[1]) == "next_adaptive_fee_info" and all(_leg(r[2][0]) == _leg(oa[0][2][0]) for r in res)
            # ... on every successful path, as the single swap does (C14.R5): a write-back behind a condition leaves stale variables behind
            ok = ok and cfg.must_pass_call(h, bi)[0]
        run.check("R5", "oracle-updates@" + hp, ok, "%s does not store each leg's next_adaptive_fee_info into that leg's oracle on every successful path" % hp, loc=h.loc(), detail="oracle_k <- result_k.next_adaptive_fee_info")
    h = facts.need_fn(H2)
    cs = calls_to(h, ends("update_and_two_hop_swap_whirlpool_v2"))
    ok = len(cs) == 1
    if ok:
        a = cs[0][2]
        r1 = outer_calls(a[0], (SWAPV2,))
        r2 = outer_calls(a[1], (SWAPV2,))
        ok = bool(r1) and bool(r2) and all(_leg(r[2][0]) == "one" for r in r1) and all(_leg(r[2][0]) == "two" for r in r2) and _leg(a[2]) == "one" and _leg(a[3]) == "two" and \
            is_param(a[4], "a_to_b_one") and is_param(a[5], "a_to_b_two")
        callee = facts.fn(callee_path(cs[0][1]))
        pn = callee.param_names()
        for i, x in enumerate(a[6:24], start=6):
            n = acc(x)
            if n and pn[i] != n:
                ok = False
    run.check("R5", "v2-settlement", ok, "two_hop_swap_v2 does not pass (result one, result two, pool one, pool two, a_to_b_one, a_to_b_two, accounts by name) to the settlement", loc=h.loc(),
              detail="positional match of results, pools, directions and same-named accounts")


def R6_settlement_sides(run):
    run.title("R6", "inside the settlements each pool books its fee growth and protocol fee on its own input side: every update_after_swap caller passes that leg's own a_to_b (C06.R3 instances)")
    from rules.common import RuleProxy
    from rules import C06
    C06.R3_booking_side(RuleProxy(run, "R6"))
    from rules.common import entry_forwarding
    entry_forwarding(run, "R6", only=("two_hop_swap",))


RULES = [R1_legs, R2_coupling, R3_equality_guard, R4_distinct_and_shared_mint, R5_settlement, R6_settlement_sides]
