// wpfacts: rustc_private fact extractor for the whirlpools static checks.
// It contains no rule. It serialises what rustc knows about the crate being
// compiled (expanded-AST account attributes, MIR with resolved callees, ADT
// layouts, evaluated constants, impls) as JSON for the Python rule engines.
#![feature(rustc_private)]
#![allow(clippy::all)]

extern crate rustc_abi;
extern crate rustc_ast;
extern crate rustc_ast_pretty;
extern crate rustc_data_structures;
extern crate rustc_driver;
extern crate rustc_hir;
extern crate rustc_interface;
extern crate rustc_middle;
extern crate rustc_session;
extern crate rustc_span;

use rustc_driver::{Callbacks, Compilation};
use rustc_hir::def::DefKind;
use rustc_hir::def_id::{DefId, LocalDefId, LOCAL_CRATE};
use rustc_middle::mir::interpret::Scalar;
use rustc_middle::mir::{self, *};
use rustc_middle::ty::print::with_no_trimmed_paths;
use rustc_middle::ty::{self, Instance, Ty, TyCtxt, TypingEnv};
use rustc_span::Span;
use std::fmt::Write as _;
use std::io::Write as _;

fn esc(s: &str) -> String {
    let mut o = String::with_capacity(s.len() + 2);
    o.push('"');
    for c in s.chars() {
        match c {
            '"' => o.push_str("\\\""),
            '\\' => o.push_str("\\\\"),
            '\n' => o.push_str("\\n"),
            '\r' => o.push_str("\\r"),
            '\t' => o.push_str("\\t"),
            c if (c as u32) < 0x20 => {
                let _ = write!(o, "\\u{:04x}", c as u32);
            }
            c => o.push(c),
        }
    }
    o.push('"');
    o
}

fn hex(bytes: &[u8]) -> String {
    let mut s = String::with_capacity(bytes.len() * 2);
    for b in bytes {
        let _ = write!(s, "{:02x}", b);
    }
    s
}

struct Cx<'tcx> {
    tcx: TyCtxt<'tcx>,
}

impl<'tcx> Cx<'tcx> {
    fn path(&self, did: DefId) -> String {
        with_no_trimmed_paths!(self.tcx.def_path_str(did))
    }
    fn tys(&self, t: Ty<'tcx>) -> String {
        with_no_trimmed_paths!(t.to_string())
    }
    fn line(&self, sp: Span) -> (String, usize) {
        let sp = sp.source_callsite();
        let sm = self.tcx.sess.source_map();
        let loc = sm.lookup_char_pos(sp.lo());
        let f = match &loc.file.name {
            rustc_span::FileName::Real(r) => match r.local_path() {
                Some(p) => p.to_string_lossy().to_string(),
                None => format!("{:?}", loc.file.name),
            },
            other => format!("{:?}", other),
        };
        (f, loc.line)
    }

    fn place_ty_walk(&self, body: &Body<'tcx>, pl: &Place<'tcx>) -> String {
        // serialise a place with named fields
        let mut s = String::new();
        let _ = write!(s, "{{\"l\":{}", pl.local.as_usize());
        if !pl.projection.is_empty() {
            s.push_str(",\"p\":[");
            let mut pty = mir::PlaceTy::from_ty(body.local_decls[pl.local].ty);
            let mut first = true;
            for elem in pl.projection.iter() {
                if !first {
                    s.push(',');
                }
                first = false;
                match elem {
                    ProjectionElem::Deref => s.push_str("\"*\""),
                    ProjectionElem::Field(fi, _fty) => {
                        let (name, adt) = self.field_name(pty, fi.as_usize());
                        let _ = write!(
                            s,
                            "{{\"f\":{},\"i\":{},\"a\":{}}}",
                            esc(&name),
                            fi.as_usize(),
                            esc(&adt)
                        );
                    }
                    ProjectionElem::Index(l) => {
                        let _ = write!(s, "{{\"ix\":{}}}", l.as_usize());
                    }
                    ProjectionElem::ConstantIndex { offset, from_end, .. } => {
                        let _ = write!(s, "{{\"ci\":{},\"fe\":{}}}", offset, from_end);
                    }
                    ProjectionElem::Subslice { from, to, from_end } => {
                        let _ = write!(s, "{{\"ss\":[{},{}],\"fe\":{}}}", from, to, from_end);
                    }
                    ProjectionElem::Downcast(name, vi) => {
                        let n = name.map(|n| n.to_string()).unwrap_or_default();
                        let _ = write!(s, "{{\"dc\":{},\"v\":{}}}", esc(&n), vi.as_usize());
                    }
                    ProjectionElem::OpaqueCast(_) => s.push_str("\"opaque\""),
                    ProjectionElem::UnwrapUnsafeBinder(_) => s.push_str("\"unbind\""),
                }
                pty = pty.projection_ty(self.tcx, elem);
            }
            s.push(']');
        }
        s.push('}');
        s
    }

    fn field_name(&self, pty: mir::PlaceTy<'tcx>, idx: usize) -> (String, String) {
        match pty.ty.kind() {
            ty::Adt(adt, _) => {
                let v = match pty.variant_index {
                    Some(v) => adt.variant(v),
                    None => {
                        if adt.is_enum() {
                            return (format!("{}", idx), self.path(adt.did()));
                        }
                        adt.non_enum_variant()
                    }
                };
                let name = v
                    .fields
                    .iter()
                    .nth(idx)
                    .map(|f| f.name.to_string())
                    .unwrap_or_else(|| idx.to_string());
                (name, self.path(adt.did()))
            }
            ty::Tuple(_) => (idx.to_string(), "(tuple)".to_string()),
            ty::Closure(..) => (idx.to_string(), "(closure)".to_string()),
            _ => (idx.to_string(), String::new()),
        }
    }

    fn constant(&self, body_def: DefId, c: &ConstOperand<'tcx>) -> String {
        let tcx = self.tcx;
        let ty = c.const_.ty();
        let mut s = String::from("{");
        if let ty::FnDef(did, args) = ty.kind() {
            let _ = write!(s, "\"fn\":{}", esc(&self.path(*did)));
            if !args.is_empty() {
                let ga: Vec<String> =
                    args.iter().map(|a| with_no_trimmed_paths!(a.to_string())).collect();
                let _ = write!(s, ",\"ga\":{}", esc(&ga.join(", ")));
            }
            s.push('}');
            return s;
        }
        let _ = write!(s, "\"ty\":{}", esc(&self.tys(ty)));
        let typing_env = TypingEnv::post_analysis(tcx, body_def);
        match c.const_ {
            Const::Unevaluated(uv, _) => {
                if let Some(p) = uv.promoted {
                    let _ = write!(s, ",\"promoted\":{}", p.as_usize());
                } else {
                    let _ = write!(s, ",\"c\":{}", esc(&self.path(uv.def)));
                    if !uv.args.is_empty() {
                        let ga: Vec<String> =
                            uv.args.iter().map(|a| with_no_trimmed_paths!(a.to_string())).collect();
                        let _ = write!(s, ",\"ga\":{}", esc(&ga.join(", ")));
                    }
                }
            }
            _ => {}
        }
        // scalar value if it can be had
        let is_scalar_ty = ty.is_integral() || ty.is_bool() || ty.is_char();
        if is_scalar_ty {
            if let Some(si) = c.const_.try_eval_scalar_int(tcx, typing_env) {
                let v = si.to_uint(si.size());
                let _ = write!(s, ",\"v\":\"{}\"", v);
            }
        } else if let Const::Val(cv, _) = c.const_ {
            self.constvalue(&mut s, cv, ty);
        }
        s.push('}');
        s
    }

    fn constvalue(&self, s: &mut String, cv: ConstValue, ty: Ty<'tcx>) {
        let tcx = self.tcx;
        match cv {
            ConstValue::Scalar(Scalar::Int(si)) => {
                let v = si.to_uint(si.size());
                let _ = write!(s, ",\"v\":\"{}\"", v);
            }
            ConstValue::Scalar(Scalar::Ptr(ptr, _)) => {
                // pointer to an allocation: dump pointee bytes when it is plain memory
                let (prov, off) = ptr.prov_and_relative_offset();
                let alloc_id = prov.alloc_id();
                if let Some(rustc_middle::mir::interpret::GlobalAlloc::Memory(a)) =
                    tcx.try_get_global_alloc(alloc_id)
                {
                    let a = a.inner();
                    let len = a.len();
                    let start = off.bytes_usize();
                    if start <= len && len - start <= 8192 && a.provenance().ptrs().is_empty() {
                        let bytes = a.inspect_with_uninit_and_ptr_outside_interpreter(start..len);
                        let _ = write!(s, ",\"ptr_bytes\":\"{}\"", hex(bytes));
                    }
                }
            }
            ConstValue::ZeroSized => {
                s.push_str(",\"zst\":true");
            }
            ConstValue::Slice { alloc_id, meta } => {
                if let rustc_middle::mir::interpret::GlobalAlloc::Memory(a) =
                    tcx.global_alloc(alloc_id)
                {
                    let a = a.inner();
                    let n = meta as usize;
                    let elem = match ty.kind() {
                        ty::Ref(_, inner, _) => match inner.kind() {
                            ty::Str => 1usize,
                            ty::Slice(e) if e.is_integral() => {
                                e.primitive_size(tcx).bytes_usize()
                            }
                            _ => 0,
                        },
                        _ => 0,
                    };
                    if elem > 0 && n * elem <= a.len() && a.provenance().ptrs().is_empty() {
                        let bytes = a.inspect_with_uninit_and_ptr_outside_interpreter(0..n * elem);
                        let _ = write!(s, ",\"bytes\":\"{}\"", hex(bytes));
                        if let ty::Ref(_, inner, _) = ty.kind() {
                            if inner.is_str() {
                                let _ = write!(
                                    s,
                                    ",\"str\":{}",
                                    esc(&String::from_utf8_lossy(bytes))
                                );
                            }
                        }
                    }
                }
            }
            ConstValue::Indirect { alloc_id, offset } => {
                if let rustc_middle::mir::interpret::GlobalAlloc::Memory(a) =
                    tcx.global_alloc(alloc_id)
                {
                    let a = a.inner();
                    let start = offset.bytes_usize();
                    let len = a.len();
                    if start <= len && len - start <= 8192 && a.provenance().ptrs().is_empty() {
                        let bytes = a.inspect_with_uninit_and_ptr_outside_interpreter(start..len);
                        let _ = write!(s, ",\"bytes\":\"{}\"", hex(bytes));
                    } else if start <= len && len - start <= 8192 {
                        // array of references etc: record provenance targets' bytes
                        s.push_str(",\"ptrs\":[");
                        let mut first = true;
                        for (_, prov) in a.provenance().ptrs().iter() {
                            if !first {
                                s.push(',');
                            }
                            first = false;
                            let mut inner = String::new();
                            if let Some(rustc_middle::mir::interpret::GlobalAlloc::Memory(b)) =
                                tcx.try_get_global_alloc(prov.alloc_id())
                            {
                                let b = b.inner();
                                if b.len() <= 8192 && b.provenance().ptrs().is_empty() {
                                    inner = hex(
                                        b.inspect_with_uninit_and_ptr_outside_interpreter(
                                            0..b.len(),
                                        ),
                                    );
                                }
                            } else if let Some(rustc_middle::mir::interpret::GlobalAlloc::Function {
                                instance,
                            }) = tcx.try_get_global_alloc(prov.alloc_id())
                            {
                                inner = format!("fn:{}", self.path(instance.def_id()));
                            }
                            s.push_str(&esc(&inner));
                        }
                        s.push(']');
                    }
                }
            }
        }
    }

    fn operand(&self, body_def: DefId, body: &Body<'tcx>, op: &Operand<'tcx>) -> String {
        match op {
            Operand::Copy(p) => format!("{{\"cp\":{}}}", self.place_ty_walk(body, p)),
            Operand::Move(p) => format!("{{\"mv\":{}}}", self.place_ty_walk(body, p)),
            Operand::Constant(c) => format!("{{\"k\":{}}}", self.constant(body_def, c)),
            _ => "{\"rt\":1}".to_string(),
        }
    }

    fn rvalue(&self, body_def: DefId, body: &Body<'tcx>, rv: &Rvalue<'tcx>) -> String {
        let op = |o: &Operand<'tcx>| self.operand(body_def, body, o);
        let pl = |p: &Place<'tcx>| self.place_ty_walk(body, p);
        match rv {
            Rvalue::Use(o, ..) => format!("{{\"use\":{}}}", op(o)),
            Rvalue::Repeat(o, n) => {
                format!("{{\"rep\":{},\"n\":{}}}", op(o), esc(&with_no_trimmed_paths!(n.to_string())))
            }
            Rvalue::Ref(_, bk, p) => {
                let m = matches!(bk, BorrowKind::Mut { .. });
                format!("{{\"ref\":{},\"m\":{}}}", pl(p), m)
            }
            Rvalue::ThreadLocalRef(_) => "{\"tls\":1}".to_string(),
            Rvalue::RawPtr(k, p) => {
                let m = matches!(k, RawPtrKind::Mut);
                format!("{{\"raw\":{},\"m\":{}}}", pl(p), m)
            }
            Rvalue::Cast(kind, o, t) => {
                let mut extra = String::new();
                let k = match kind {
                    CastKind::IntToInt => "int",
                    CastKind::PtrToPtr => "ptr",
                    CastKind::Transmute => "transmute",
                    CastKind::PointerCoercion(pc, _) => {
                        let _ = write!(extra, ",\"pc\":{}", esc(&format!("{:?}", pc)));
                        "coerce"
                    }
                    CastKind::FnPtrToPtr => "fnptr",
                    CastKind::PointerExposeProvenance => "expose",
                    CastKind::PointerWithExposedProvenance => "withexposed",
                    _ => "other",
                };
                format!("{{\"cast\":{},\"a\":{},\"ty\":{}{}}}", esc(k), op(o), esc(&self.tys(*t)), extra)
            }
            Rvalue::BinaryOp(b, ops) => {
                format!(
                    "{{\"bin\":{},\"a\":{},\"b\":{}}}",
                    esc(&format!("{:?}", b)),
                    op(&ops.0),
                    op(&ops.1)
                )
            }
            Rvalue::UnaryOp(u, o) => {
                format!("{{\"un\":{},\"a\":{}}}", esc(&format!("{:?}", u)), op(o))
            }
            Rvalue::Discriminant(p) => format!("{{\"discr\":{}}}", pl(p)),
            Rvalue::Aggregate(kind, ops) => {
                let mut s = String::from("{\"agg\":");
                match &**kind {
                    AggregateKind::Array(t) => {
                        let _ = write!(s, "{{\"k\":\"array\",\"ty\":{}}}", esc(&self.tys(*t)));
                    }
                    AggregateKind::Tuple => s.push_str("{\"k\":\"tuple\"}"),
                    AggregateKind::Adt(did, vi, _, _, active) => {
                        let adt = self.tcx.adt_def(*did);
                        let v = adt.variant(*vi);
                        let names: Vec<String> = match active {
                            Some(fi) => vec![esc(&v.fields[*fi].name.to_string())],
                            None => v.fields.iter().map(|f| esc(&f.name.to_string())).collect(),
                        };
                        let _ = write!(
                            s,
                            "{{\"k\":\"adt\",\"adt\":{},\"v\":{},\"vi\":{},\"fields\":[{}]}}",
                            esc(&self.path(*did)),
                            esc(&v.name.to_string()),
                            vi.as_usize(),
                            names.join(",")
                        );
                    }
                    AggregateKind::Closure(did, _) => {
                        let _ = write!(s, "{{\"k\":\"closure\",\"def\":{}}}", esc(&self.path(*did)));
                    }
                    AggregateKind::RawPtr(..) => s.push_str("{\"k\":\"rawptr\"}"),
                    _ => s.push_str("{\"k\":\"other\"}"),
                }
                s.push_str(",\"ops\":[");
                let v: Vec<String> = ops.iter().map(|o| op(o)).collect();
                s.push_str(&v.join(","));
                s.push_str("]}");
                s
            }
            Rvalue::CopyForDeref(p) => format!("{{\"use\":{{\"cp\":{}}}}}", pl(p)),
            _ => "{\"other\":1}".to_string(),
        }
    }

    fn callee(&self, body_def: DefId, body: &Body<'tcx>, func: &Operand<'tcx>) -> String {
        let tcx = self.tcx;
        if let Operand::Constant(c) = func {
            if let ty::FnDef(did, args) = c.const_.ty().kind() {
                let raw = self.path(*did);
                let ga: Vec<String> =
                    args.iter().map(|a| with_no_trimmed_paths!(a.to_string())).collect();
                let typing_env = TypingEnv::post_analysis(tcx, body_def);
                let mut resolved = raw.clone();
                let mut virt = false;
                let mut local = did.is_local();
                let args_e = tcx.erase_and_anonymize_regions(*args);
                let needs = {
                    use rustc_middle::ty::TypeVisitableExt;
                    args_e.has_aliases()
                };
                let args_n = if needs {
                    tcx.try_normalize_erasing_regions(typing_env, ty::Unnormalized::new_wip(args_e)).ok()
                } else {
                    Some(args_e)
                };
                if let Some(args_n) = args_n {
                    if let Ok(Some(inst)) = Instance::try_resolve(tcx, typing_env, *did, args_n) {
                        resolved = self.path(inst.def_id());
                        local = inst.def_id().is_local();
                        if let ty::InstanceKind::Virtual(..) = inst.def {
                            virt = true;
                        }
                    }
                }
                let mut s = format!("{{\"p\":{}", esc(&resolved));
                if resolved != raw {
                    let _ = write!(s, ",\"raw\":{}", esc(&raw));
                }
                if !ga.is_empty() {
                    let _ = write!(s, ",\"ga\":{}", esc(&ga.join(", ")));
                }
                if virt {
                    s.push_str(",\"virt\":true");
                }
                if local {
                    s.push_str(",\"loc\":true");
                }
                s.push('}');
                return s;
            }
        }
        format!("{{\"ind\":{}}}", self.operand(body_def, body, func))
    }

    fn body_json(&self, body_def: DefId, body: &Body<'tcx>, out: &mut String) {
        let tcx = self.tcx;
        // locals
        out.push_str("\"locals\":[");
        let mut names: Vec<Option<String>> = vec![None; body.local_decls.len()];
        for vdi in body.var_debug_info.iter() {
            if let VarDebugInfoContents::Place(p) = &vdi.value {
                if p.projection.is_empty() {
                    names[p.local.as_usize()] = Some(vdi.name.to_string());
                }
            }
        }
        for (i, d) in body.local_decls.iter().enumerate() {
            if i > 0 {
                out.push(',');
            }
            let _ = write!(out, "{{\"t\":{}", esc(&self.tys(d.ty)));
            if let Some(n) = &names[i] {
                let _ = write!(out, ",\"n\":{}", esc(n));
            }
            out.push('}');
        }
        let _ = write!(out, "],\"argc\":{},\"blocks\":[", body.arg_count);
        for (bi, bb) in body.basic_blocks.iter().enumerate() {
            if bi > 0 {
                out.push(',');
            }
            out.push_str("{\"s\":[");
            let mut first = true;
            for st in bb.statements.iter() {
                let js = match &st.kind {
                    StatementKind::Assign(b) => {
                        let (p, rv) = &**b;
                        let (_, ln) = self.line(st.source_info.span);
                        Some(format!(
                            "{{\"k\":\"=\",\"p\":{},\"rv\":{},\"l\":{},\"x\":{}}}",
                            self.place_ty_walk(body, p),
                            self.rvalue(body_def, body, rv),
                            ln,
                            st.source_info.span.from_expansion() as u8
                        ))
                    }
                    StatementKind::SetDiscriminant { place, variant_index } => {
                        let (_, ln) = self.line(st.source_info.span);
                        Some(format!(
                            "{{\"k\":\"setdiscr\",\"p\":{},\"v\":{},\"l\":{}}}",
                            self.place_ty_walk(body, place),
                            variant_index.as_usize(),
                            ln
                        ))
                    }
                    StatementKind::Intrinsic(i) => {
                        let (_, ln) = self.line(st.source_info.span);
                        match &**i {
                            NonDivergingIntrinsic::Assume(o) => Some(format!(
                                "{{\"k\":\"assume\",\"a\":{},\"l\":{}}}",
                                self.operand(body_def, body, o),
                                ln
                            )),
                            NonDivergingIntrinsic::CopyNonOverlapping(c) => Some(format!(
                                "{{\"k\":\"copy_nonoverlapping\",\"src\":{},\"dst\":{},\"l\":{}}}",
                                self.operand(body_def, body, &c.src),
                                self.operand(body_def, body, &c.dst),
                                ln
                            )),
                        }
                    }
                    _ => None,
                };
                if let Some(js) = js {
                    if !first {
                        out.push(',');
                    }
                    first = false;
                    out.push_str(&js);
                }
            }
            out.push_str("],\"t\":");
            let term = bb.terminator();
            let (_, ln) = self.line(term.source_info.span);
            let x = term.source_info.span.from_expansion() as u8;
            match &term.kind {
                TerminatorKind::Goto { target } => {
                    let _ = write!(out, "{{\"k\":\"goto\",\"t\":{}}}", target.as_usize());
                }
                TerminatorKind::SwitchInt { discr, targets } => {
                    let _ = write!(
                        out,
                        "{{\"k\":\"switch\",\"d\":{},\"dt\":{},\"ts\":[",
                        self.operand(body_def, body, discr),
                        esc(&self.tys(discr.ty(&body.local_decls, tcx)))
                    );
                    let mut f = true;
                    for (v, t) in targets.iter() {
                        if !f {
                            out.push(',');
                        }
                        f = false;
                        let _ = write!(out, "[\"{}\",{}]", v, t.as_usize());
                    }
                    let _ = write!(
                        out,
                        "],\"o\":{},\"l\":{},\"x\":{}}}",
                        targets.otherwise().as_usize(),
                        ln,
                        x
                    );
                }
                TerminatorKind::Return => out.push_str("{\"k\":\"ret\"}"),
                TerminatorKind::Unreachable => out.push_str("{\"k\":\"unreachable\"}"),
                TerminatorKind::UnwindResume => out.push_str("{\"k\":\"resume\"}"),
                TerminatorKind::UnwindTerminate(_) => out.push_str("{\"k\":\"abort\"}"),
                TerminatorKind::Drop { place, target, .. } => {
                    let _ = write!(
                        out,
                        "{{\"k\":\"drop\",\"p\":{},\"t\":{}}}",
                        self.place_ty_walk(body, place),
                        target.as_usize()
                    );
                }
                TerminatorKind::Call { func, args, destination, target, unwind, fn_span, .. } => {
                    let (_, fl) = self.line(*fn_span);
                    let a: Vec<String> =
                        args.iter().map(|a| self.operand(body_def, body, &a.node)).collect();
                    let uw = match unwind {
                        UnwindAction::Cleanup(b) => b.as_usize() as i64,
                        _ => -1,
                    };
                    let _ = write!(
                        out,
                        "{{\"k\":\"call\",\"f\":{},\"a\":[{}],\"d\":{},\"t\":{},\"u\":{},\"l\":{},\"x\":{}}}",
                        self.callee(body_def, body, func),
                        a.join(","),
                        self.place_ty_walk(body, destination),
                        match target {
                            Some(t) => t.as_usize().to_string(),
                            None => "null".to_string(),
                        },
                        uw,
                        fl,
                        x
                    );
                }
                TerminatorKind::TailCall { func, args, .. } => {
                    let a: Vec<String> =
                        args.iter().map(|a| self.operand(body_def, body, &a.node)).collect();
                    let _ = write!(
                        out,
                        "{{\"k\":\"tailcall\",\"f\":{},\"a\":[{}],\"l\":{}}}",
                        self.callee(body_def, body, func),
                        a.join(","),
                        ln
                    );
                }
                TerminatorKind::Assert { cond, expected, msg, target, .. } => {
                    let m = match &**msg {
                        AssertKind::BoundsCheck { .. } => "bounds".to_string(),
                        AssertKind::Overflow(op, ..) => format!("overflow:{:?}", op),
                        AssertKind::OverflowNeg(..) => "overflow:Neg".to_string(),
                        AssertKind::DivisionByZero(..) => "divzero".to_string(),
                        AssertKind::RemainderByZero(..) => "remzero".to_string(),
                        _ => "other".to_string(),
                    };
                    let _ = write!(
                        out,
                        "{{\"k\":\"assert\",\"c\":{},\"e\":{},\"m\":{},\"t\":{},\"l\":{}}}",
                        self.operand(body_def, body, cond),
                        expected,
                        esc(&m),
                        target.as_usize(),
                        ln
                    );
                }
                TerminatorKind::FalseEdge { real_target, .. } => {
                    let _ = write!(out, "{{\"k\":\"goto\",\"t\":{}}}", real_target.as_usize());
                }
                TerminatorKind::FalseUnwind { real_target, .. } => {
                    let _ = write!(out, "{{\"k\":\"goto\",\"t\":{}}}", real_target.as_usize());
                }
                _ => out.push_str("{\"k\":\"other\"}"),
            }
            let _ = write!(out, ",\"c\":{}}}", bb.is_cleanup as u8);
        }
        out.push(']');
    }

    fn fn_record(&self, ldid: LocalDefId, kind: &str) -> Option<String> {
        let tcx = self.tcx;
        let did = ldid.to_def_id();
        let mut out = String::with_capacity(4096);
        let (file, line) = self.line(tcx.def_span(did));
        let _ = write!(
            out,
            "{{\"path\":{},\"kind\":{},\"file\":{},\"line\":{},\"x\":{}",
            esc(&self.path(did)),
            esc(kind),
            esc(&file),
            line,
            tcx.def_span(did).from_expansion() as u8
        );
        if let Some(name) = tcx.opt_item_name(did) {
            let _ = write!(out, ",\"name\":{}", esc(name.as_str()));
        }
        // owner impl / trait
        if matches!(tcx.def_kind(did), DefKind::AssocFn | DefKind::AssocConst { .. }) {
            let parent = tcx.parent(did);
            match tcx.def_kind(parent) {
                DefKind::Impl { of_trait } => {
                    let self_ty = tcx.type_of(parent).instantiate_identity().skip_norm_wip();
                    let _ = write!(out, ",\"self\":{}", esc(&self.tys(self_ty)));
                    if of_trait {
                        let tr = tcx.impl_trait_ref(parent).instantiate_identity().skip_norm_wip();
                        let _ = write!(out, ",\"trait\":{}", esc(&self.path(tr.def_id)));
                    }
                }
                DefKind::Trait => {
                    let _ = write!(out, ",\"trait_default\":{}", esc(&self.path(parent)));
                }
                _ => {}
            }
        }
        if matches!(tcx.def_kind(did), DefKind::Fn | DefKind::AssocFn) {
            let vis = tcx.visibility(did);
            let _ = write!(out, ",\"pub\":{}", vis.is_public());
            let sig = tcx.fn_sig(did).instantiate_identity().skip_norm_wip().skip_binder();
            let ins: Vec<String> = sig.inputs().iter().map(|t| esc(&self.tys(*t))).collect();
            let _ = write!(
                out,
                ",\"sig\":{{\"in\":[{}],\"out\":{}}}",
                ins.join(","),
                esc(&self.tys(sig.output()))
            );
            let gens = tcx.generics_of(did);
            let _ = write!(out, ",\"generic\":{}", gens.requires_monomorphization(tcx));
            if gens.requires_monomorphization(tcx) {
                // names of all generic parameters (parents first), positionally aligned with a call site's generic arguments
                let names: Vec<String> = (0..gens.count()).map(|i| esc(gens.param_at(i, tcx).name.as_str())).collect();
                let _ = write!(out, ",\"gparams\":[{}]", names.join(","));
            }
        }
        let body: &Body<'tcx> = match kind {
            "const" => {
                if tcx.hir_maybe_body_owned_by(ldid).is_none() {
                    return None;
                }
                tcx.mir_for_ctfe(ldid)
            }
            _ => {
                if !tcx.is_mir_available(did) {
                    return None;
                }
                tcx.optimized_mir(did)
            }
        };
        out.push(',');
        self.body_json(did, body, &mut out);
        if kind != "const" {
            let promoted = tcx.promoted_mir(did);
            if !promoted.is_empty() {
                out.push_str(",\"promoted\":[");
                for (i, pb) in promoted.iter().enumerate() {
                    if i > 0 {
                        out.push(',');
                    }
                    out.push('{');
                    self.body_json(did, pb, &mut out);
                    out.push('}');
                }
                out.push(']');
            }
        }
        out.push('}');
        Some(out)
    }

    fn adt_record(&self, did: DefId) -> String {
        let tcx = self.tcx;
        let adt = tcx.adt_def(did);
        let mut out = String::new();
        let kind = if adt.is_enum() {
            "enum"
        } else if adt.is_union() {
            "union"
        } else {
            "struct"
        };
        let (file, line) = self.line(tcx.def_span(did));
        let repr = adt.repr();
        let _ = write!(
            out,
            "{{\"path\":{},\"kind\":{},\"file\":{},\"line\":{},\"repr_c\":{},\"packed\":{},\"transparent\":{}",
            esc(&self.path(did)),
            esc(kind),
            esc(&file),
            line,
            repr.c(),
            repr.packed(),
            repr.transparent()
        );
        let generic = tcx.generics_of(did).requires_monomorphization(tcx);
        let _ = write!(out, ",\"generic\":{}", generic);
        out.push_str(",\"variants\":[");
        for (i, v) in adt.variants().iter().enumerate() {
            if i > 0 {
                out.push(',');
            }
            let _ = write!(out, "{{\"name\":{},\"fields\":[", esc(v.name.as_str()));
            for (j, f) in v.fields.iter().enumerate() {
                if j > 0 {
                    out.push(',');
                }
                let fty = tcx.type_of(f.did).instantiate_identity().skip_norm_wip();
                let _ = write!(
                    out,
                    "{{\"name\":{},\"ty\":{}}}",
                    esc(f.name.as_str()),
                    esc(&self.tys(fty))
                );
            }
            out.push_str("]}");
        }
        out.push(']');
        if adt.is_enum() {
            out.push_str(",\"discrs\":[");
            let mut first = true;
            for (vi, d) in adt.discriminants(tcx) {
                if !first {
                    out.push(',');
                }
                first = false;
                let _ = write!(
                    out,
                    "[{},\"{}\"]",
                    esc(adt.variant(vi).name.as_str()),
                    d.val
                );
            }
            out.push(']');
        }
        if !generic {
            let ty = tcx.type_of(did).instantiate_identity().skip_norm_wip();
            let typing_env = TypingEnv::fully_monomorphized();
            if let Ok(layout) = tcx.layout_of(typing_env.as_query_input(ty)) {
                let _ = write!(
                    out,
                    ",\"size\":{},\"align\":{}",
                    layout.size.bytes(),
                    layout.align.abi.bytes()
                );
                if adt.is_struct() {
                    out.push_str(",\"offsets\":[");
                    let n = adt.non_enum_variant().fields.len();
                    for i in 0..n {
                        if i > 0 {
                            out.push(',');
                        }
                        let _ = write!(out, "{}", layout.fields.offset(i).bytes());
                    }
                    out.push_str("],\"fsizes\":[");
                    for i in 0..n {
                        if i > 0 {
                            out.push(',');
                        }
                        let fl = layout.field(&rustc_middle::ty::layout::LayoutCx::new(tcx, typing_env), i);
                        let _ = write!(out, "{}", fl.size.bytes());
                    }
                    out.push(']');
                }
            }
        }
        out.push('}');
        out
    }

    fn const_record(&self, ldid: LocalDefId) -> Option<String> {
        let tcx = self.tcx;
        let did = ldid.to_def_id();
        if tcx.generics_of(did).requires_monomorphization(tcx) {
            return None;
        }
        // associated consts of generic impls / traits without default are skipped
        if matches!(tcx.def_kind(did), DefKind::AssocConst { .. }) {
            let parent = tcx.parent(did);
            if tcx.generics_of(parent).requires_monomorphization(tcx) {
                return None;
            }
            if tcx.def_kind(parent) == DefKind::Trait {
                return None;
            }
        }
        let ty = tcx.type_of(did).instantiate_identity().skip_norm_wip();
        let mut out = String::new();
        let (file, line) = self.line(tcx.def_span(did));
        let _ = write!(
            out,
            "{{\"path\":{},\"ty\":{},\"file\":{},\"line\":{}",
            esc(&self.path(did)),
            esc(&self.tys(ty)),
            esc(&file),
            line
        );
        if matches!(tcx.def_kind(did), DefKind::AssocConst { .. }) {
            let parent = tcx.parent(did);
            if let DefKind::Impl { of_trait } = tcx.def_kind(parent) {
                let self_ty = tcx.type_of(parent).instantiate_identity().skip_norm_wip();
                let _ = write!(out, ",\"self\":{}", esc(&self.tys(self_ty)));
                if of_trait {
                    let tr = tcx.impl_trait_ref(parent).instantiate_identity().skip_norm_wip();
                    let _ = write!(out, ",\"trait\":{}", esc(&self.path(tr.def_id)));
                }
            }
            if let Some(name) = tcx.opt_item_name(did) {
                let _ = write!(out, ",\"name\":{}", esc(name.as_str()));
            }
        }
        if let Ok(cv) = tcx.const_eval_poly(did) {
            self.constvalue(&mut out, cv, ty);
        }
        out.push('}');
        Some(out)
    }

    fn resolve_extern(&self, path: &str) -> Vec<DefId> {
        let tcx = self.tcx;
        let segs: Vec<&str> = path.split("::").collect();
        let mut res = vec![];
        for &cnum in tcx.crates(()).iter() {
            if tcx.crate_name(cnum).as_str() != segs[0] {
                continue;
            }
            let mut cur = vec![cnum.as_def_id()];
            for seg in &segs[1..] {
                let mut next = vec![];
                for d in cur {
                    if !matches!(tcx.def_kind(d), DefKind::Mod | DefKind::Enum | DefKind::Trait) {
                        continue;
                    }
                    for ch in tcx.module_children(d).iter() {
                        if ch.ident.name.as_str() == *seg {
                            if let Some(cd) = ch.res.opt_def_id() {
                                next.push(cd);
                            }
                        }
                    }
                }
                cur = next;
            }
            res.extend(cur);
        }
        res
    }
}

fn write_file(dir: &std::path::Path, name: &str, content: &str) {
    let p = dir.join(name);
    let mut f = std::fs::File::create(&p).expect("create fact file");
    f.write_all(content.as_bytes()).expect("write fact file");
}

struct Cb {
    out: std::path::PathBuf,
}

fn walk_items(
    items: &[Box<rustc_ast::ast::Item>],
    modpath: &mut Vec<String>,
    out: &mut Vec<String>,
    sm: &rustc_span::source_map::SourceMap,
) {
    use rustc_ast::ast::*;
    for it in items {
        match &it.kind {
            ItemKind::Mod(_, ident, ModKind::Loaded(inner, ..)) => {
                modpath.push(ident.name.to_string());
                walk_items(inner, modpath, out, sm);
                modpath.pop();
            }
            ItemKind::Struct(ident, _gen, vd) => {
                let fields = vd.fields();
                let has = fields.iter().any(|f| {
                    f.attrs.iter().any(|a| {
                        rustc_ast_pretty::pprust::attribute_to_string(a).starts_with("#[account")
                    })
                });
                let item_attrs: Vec<String> = it
                    .attrs
                    .iter()
                    .map(|a| rustc_ast_pretty::pprust::attribute_to_string(a))
                    .filter(|s| s.starts_with("#[instruction") || s.starts_with("#[account"))
                    .collect();
                if !has && item_attrs.is_empty() {
                    continue;
                }
                let loc = sm.lookup_char_pos(it.span.lo());
                let mut s = String::new();
                let mut p = modpath.join("::");
                if !p.is_empty() {
                    p.push_str("::");
                }
                p.push_str(ident.name.as_str());
                let _ = write!(
                    s,
                    "{{\"path\":{},\"name\":{},\"line\":{},\"file\":{},\"attrs\":[{}],\"fields\":[",
                    esc(&p),
                    esc(ident.name.as_str()),
                    loc.line,
                    esc(&format!("{}", loc.file.name.prefer_local_unconditionally())),
                    item_attrs.iter().map(|a| esc(a)).collect::<Vec<_>>().join(",")
                );
                for (i, f) in fields.iter().enumerate() {
                    if i > 0 {
                        s.push(',');
                    }
                    let attrs: Vec<String> = f
                        .attrs
                        .iter()
                        .map(|a| rustc_ast_pretty::pprust::attribute_to_string(a))
                        .filter(|a| !a.starts_with("///") && !a.starts_with("#[doc"))
                        .map(|a| esc(&a))
                        .collect();
                    let floc = sm.lookup_char_pos(f.span.lo());
                    let _ = write!(
                        s,
                        "{{\"name\":{},\"ty\":{},\"line\":{},\"attrs\":[{}]}}",
                        esc(&f.ident.map(|i| i.name.to_string()).unwrap_or_default()),
                        esc(&rustc_ast_pretty::pprust::ty_to_string(&f.ty)),
                        floc.line,
                        attrs.join(",")
                    );
                }
                s.push_str("]}");
                out.push(s);
            }
            _ => {}
        }
    }
}

impl Callbacks for Cb {
    fn after_expansion<'tcx>(
        &mut self,
        _compiler: &rustc_interface::interface::Compiler,
        tcx: TyCtxt<'tcx>,
    ) -> Compilation {
        let resolver_and_krate = tcx.resolver_for_lowering().borrow();
        let krate = &resolver_and_krate.1;
        let mut out = vec![];
        let mut modpath = vec![];
        walk_items(&krate.items, &mut modpath, &mut out, tcx.sess.source_map());
        write_file(&self.out, "accounts.json", &format!("[{}]", out.join(",\n")));
        Compilation::Continue
    }

    fn after_analysis<'tcx>(
        &mut self,
        _compiler: &rustc_interface::interface::Compiler,
        tcx: TyCtxt<'tcx>,
    ) -> Compilation {
        if tcx.dcx().has_errors().is_some() {
            return Compilation::Continue;
        }
        let cx = Cx { tcx };
        let mut fns = String::new();
        let mut nfn = 0usize;
        let mut adts = vec![];
        let mut consts = vec![];
        let mut impls = vec![];
        for ldid in tcx.hir_crate_items(()).definitions() {
            let did = ldid.to_def_id();
            match tcx.def_kind(did) {
                DefKind::Fn | DefKind::AssocFn => {
                    if let Some(r) = cx.fn_record(ldid, "fn") {
                        fns.push_str(&r);
                        fns.push('\n');
                        nfn += 1;
                    }
                }
                DefKind::Const { .. } | DefKind::AssocConst { .. } => {
                    if let Some(r) = cx.const_record(ldid) {
                        consts.push(r);
                    }
                    if !tcx.generics_of(did).requires_monomorphization(tcx) {
                        if let Some(r) = cx.fn_record(ldid, "const") {
                            fns.push_str(&r);
                            fns.push('\n');
                        }
                    }
                }
                DefKind::Struct | DefKind::Enum | DefKind::Union => {
                    adts.push(cx.adt_record(did));
                }
                DefKind::Impl { of_trait } => {
                    let self_ty = tcx.type_of(did).instantiate_identity().skip_norm_wip();
                    let mut s = String::new();
                    let _ = write!(s, "{{\"self\":{}", esc(&cx.tys(self_ty)));
                    if of_trait {
                        let tr = tcx.impl_trait_ref(did).instantiate_identity().skip_norm_wip();
                        let _ = write!(s, ",\"trait\":{}", esc(&cx.path(tr.def_id)));
                    }
                    let items: Vec<String> = tcx
                        .associated_item_def_ids(did)
                        .iter()
                        .map(|d| esc(&cx.path(*d)))
                        .collect();
                    let _ = write!(s, ",\"items\":[{}]}}", items.join(","));
                    impls.push(s);
                }
                _ => {}
            }
        }
        // closures are body owners but not crate-item definitions
        for ldid in tcx.hir_body_owners() {
            if matches!(tcx.def_kind(ldid.to_def_id()), DefKind::Closure) {
                if let Some(r) = cx.fn_record(ldid, "closure") {
                    fns.push_str(&r);
                    fns.push('\n');
                    nfn += 1;
                }
            }
        }
        // external ADTs requested by the rules
        if let Ok(list) = std::env::var("WPFACTS_EXTERN") {
            for p in list.split(',').filter(|s| !s.is_empty()) {
                for d in cx.resolve_extern(p) {
                    match tcx.def_kind(d) {
                        DefKind::Struct | DefKind::Enum | DefKind::Union => {
                            adts.push(cx.adt_record(d));
                        }
                        DefKind::Const { .. } | DefKind::AssocConst { .. } => {
                            let ty = tcx.type_of(d).instantiate_identity().skip_norm_wip();
                            let mut s = format!(
                                "{{\"path\":{},\"ty\":{},\"extern\":true",
                                esc(&cx.path(d)),
                                esc(&cx.tys(ty))
                            );
                            if let Ok(cv) = tcx.const_eval_poly(d) {
                                cx.constvalue(&mut s, cv, ty);
                            }
                            s.push('}');
                            consts.push(s);
                        }
                        _ => {}
                    }
                }
            }
        }
        write_file(&self.out, "mir.jsonl", &fns);
        write_file(&self.out, "adts.json", &format!("[{}]", adts.join(",\n")));
        write_file(&self.out, "consts.json", &format!("[{}]", consts.join(",\n")));
        write_file(&self.out, "impls.json", &format!("[{}]", impls.join(",\n")));
        let crate_name = tcx.crate_name(LOCAL_CRATE).to_string();
        write_file(
            &self.out,
            "meta.json",
            &format!(
                "{{\"crate\":{},\"bodies\":{},\"pid\":{},\"rustc\":{}}}",
                esc(&crate_name),
                nfn,
                std::process::id(),
                esc(option_env!("CFG_VERSION").unwrap_or("nightly"))
            ),
        );
        Compilation::Continue
    }
}

fn main() {
    let mut args: Vec<String> = std::env::args().collect();
    // wrapper mode: argv[1] is the path of the real rustc
    if args.len() > 1 && (args[1].ends_with("rustc") || args[1].ends_with("rustc.exe")) {
        args.remove(1);
    }
    let targets = std::env::var("WPFACTS_CRATES").unwrap_or_else(|_| "whirlpool".to_string());
    let mut crate_name = std::env::var("CARGO_CRATE_NAME").unwrap_or_default();
    for i in 0..args.len() {
        if args[i] == "--crate-name" && i + 1 < args.len() {
            crate_name = args[i + 1].clone();
        }
    }
    let is_target = targets.split(',').any(|t| t == crate_name);
    let out = std::env::var("WPFACTS_OUT").ok();
    if is_target && out.is_some() {
        let dir = std::path::PathBuf::from(out.unwrap()).join(&crate_name);
        std::fs::create_dir_all(&dir).expect("mkdir facts");
        let mut cb = Cb { out: dir };
        rustc_driver::run_compiler(&args, &mut cb);
    } else {
        struct Nop;
        impl Callbacks for Nop {}
        rustc_driver::run_compiler(&args, &mut Nop);
    }
}
